(* NQPipe.v — whatever the N-Triples / N-Quads decoder model emits can be written again and read back unchanged: the
   statements decoded from ANY input (also those before a syntax error) satisfy the hypotheses of the round trip
   theorem, so re-encoding them (ASCII option on or off, as N-Quads, or as N-Triples when the input was N-Triples) and
   decoding the result gives the same quads. *)
From RK Require Import Base BaseFacts Utf8 Runes NQ NQProofs NQTotal NQRoundTrip.
From Coq Require Import ZifyN ZifyNat ZifyBool.

Lemma sanitize_is_scalar r : is_scalar (sanitize r) = true.
Proof. unfold sanitize. destruct (is_scalar r) eqn:E; [exact E|reflexivity]. Qed.

Lemma scalars_sanitize l : scalars (map sanitize l).
Proof. unfold scalars. apply Forall_forall. intros x Hx. apply in_map_iff in Hx as (y & <- & _). apply sanitize_is_scalar. Qed.

Lemma open_iri_ok lt inp v ps rest : open_iri lt inp = POk v ps rest -> iri_ok v.
Proof.
  unfold open_iri. destruct (iri_body inp [] [lt]) as [[dec raw] tr r| | |]; try discriminate.
  destruct (is_absolute (map sanitize dec)) eqn:E; [|discriminate]. intros [= <- _ _]. split; [apply scalars_sanitize|exact E].
Qed.

(* ---------- language tags ---------- *)
Definition lastdash (acc : list drune) : bool := match acc with a :: _ => N.eqb (fst a) 45 | [] => false end.

Lemma sec_inv : forall inp acc tag tr rest, lang_secondary inp acc = Ok tag tr rest -> acc <> [] ->
  exists sc, tag = rev acc ++ sc /\ sec_ok (lastdash acc) (map fst sc) = true.
Proof.
  induction inp as [|r0 inp IH]; intros acc tag tr rest H Hacc; cbn [lang_secondary] in H; [discriminate|].
  destruct (is_alnum (fst r0)) eqn:Ea.
  - destruct (IH (r0 :: acc) tag tr rest H ltac:(discriminate)) as (sc & -> & Hs).
    exists (r0 :: sc). split; [cbn [rev]; rewrite <- app_assoc; reflexivity|].
    cbn [map sec_ok]. rewrite Ea. cbn [lastdash] in Hs.
    assert (N.eqb (fst r0) 45 = false) as E by (unfold is_alnum, is_alpha, is_digit, rng in Ea; lia). rewrite E in Hs. exact Hs.
  - destruct (N.eqb (fst r0) 45) eqn:Ed.
    + destruct acc as [|a acc']; [contradiction|]. destruct (N.eqb (fst a) 45) eqn:Eda; [discriminate|].
      destruct (IH (r0 :: a :: acc') tag tr rest H ltac:(discriminate)) as (sc & -> & Hs).
      exists (r0 :: sc). split; [cbn [rev]; rewrite <- !app_assoc; reflexivity|].
      cbn [map sec_ok lastdash]. rewrite Ea, Ed, Eda. cbn [negb andb]. cbn [lastdash] in Hs. rewrite Ed in Hs. exact Hs.
    + injection H as <- _ _. exists []. split; [rewrite app_nil_r; reflexivity|reflexivity].
Qed.

Lemma prim_inv : forall inp acc tag tr rest, lang_primary inp acc = Ok tag tr rest -> tag <> [] ->
  exists sc, tag = rev acc ++ sc /\ prim_ok (match acc with [] => true | _ => false end) (map fst sc) = true.
Proof.
  induction inp as [|r0 inp IH]; intros acc tag tr rest H Hne; cbn [lang_primary] in H; [discriminate|].
  destruct (is_alpha (fst r0)) eqn:Ea.
  - destruct (IH (r0 :: acc) tag tr rest H Hne) as (sc & -> & Hs).
    exists (r0 :: sc). split; [cbn [rev]; rewrite <- app_assoc; reflexivity|]. cbn [map prim_ok]. rewrite Ea. exact Hs.
  - destruct (N.eqb (fst r0) 45) eqn:Ed.
    + destruct acc as [|a acc']; [discriminate|].
      destruct (sec_inv inp (r0 :: a :: acc') tag tr rest H ltac:(discriminate)) as (sc & -> & Hs).
      exists (r0 :: sc). split; [cbn [rev]; rewrite <- !app_assoc; reflexivity|].
      cbn [map prim_ok]. rewrite Ea, Ed. cbn [negb andb]. cbn [lastdash] in Hs. rewrite Ed in Hs. exact Hs.
    + injection H as <- _ _. exists []. split; [rewrite app_nil_r; reflexivity|]. cbn [map prim_ok]. destruct acc; [contradiction Hne; reflexivity|reflexivity].
Qed.

Lemma open_langtag_ok a inp v ps rest : open_langtag a inp = POk v ps rest -> lang_ok v = true.
Proof.
  unfold open_langtag. destruct (lang_primary inp []) as [tag tr r| | |] eqn:E; try discriminate.
  assert (Hinv : tag <> [] -> prim_ok true (map fst tag) = true).
  { intros Hne. destruct (prim_inv inp [] tag tr r E Hne) as (sc & Es & Hs). cbn [rev app] in Es. subst sc. exact Hs. }
  destruct tag as [|x tag']; [discriminate|]. remember (x :: tag') as l eqn:El0.
  destruct (last_is_dash l) eqn:El; [discriminate|]. intros [= <- _ _].
  unfold lang_ok. rewrite Hinv by (subst l; discriminate). cbn [andb]. unfold last_is_dash in El. rewrite <- map_rev.
  destruct (rev l) as [|z w] eqn:Er; [subst l; cbn [rev] in Er; destruct (rev tag'); discriminate|]. simpl in El. match goal with |- context [map fst ?t] => replace t with (z :: w) by (symmetry; exact Er) end. simpl. rewrite El. reflexivity.
Qed.

(* ---------- blank node labels ---------- *)
Lemma bnode_rest_inv : forall inp (acc : list drune) t lab tr rest, bnode_rest inp acc t = Ok lab tr rest ->
  exists sc, lab = rev acc ++ sc /\ forallb (fun x => pn_chars_nt x || N.eqb x 46) (map fst sc) = true.
Proof.
  induction inp as [|r0 inp IH]; intros acc t lab tr rest H; cbn [bnode_rest] in H.
  - destruct t; [|discriminate]. injection H as <- _ _. exists []. split; [rewrite app_nil_r; reflexivity|reflexivity].
  - destruct (pn_chars_nt (fst r0) || N.eqb (fst r0) 46) eqn:E.
    + destruct (IH (r0 :: acc) t lab tr rest H) as (sc & -> & Hs). exists (r0 :: sc).
      split; [cbn [rev]; rewrite <- app_assoc; reflexivity|]. cbn [map forallb]. rewrite E, Hs. reflexivity.
    + injection H as <- _ _. exists []. split; [rewrite app_nil_r; reflexivity|reflexivity].
Qed.

Lemma forallb_removelast {A} (p : A -> bool) l : forallb p l = true -> forallb p (removelast l) = true.
Proof.
  induction l as [|a l IH]; [auto|]. cbn [forallb]. intros H. apply andb_prop in H as [Ha Hl].
  destruct l as [|b l']; [reflexivity|]. cbn [removelast forallb]. rewrite Ha. cbn [andb]. apply IH. exact Hl.
Qed.

Lemma open_bnode_ok us colon inp t v ps rest : open_bnode us colon inp t = POk v ps rest -> exists l, v = TBlank l /\ bn_ok l = true.
Proof.
  unfold open_bnode. destruct inp as [|r0 inp']; [discriminate|].
  destruct (pn_chars_u_nt (fst r0) || is_digit (fst r0)) eqn:E0; [|discriminate].
  destruct (bnode_rest inp' [r0] t) as [lab tr rest1| | |] eqn:E; try discriminate.
  destruct (bnode_rest_inv inp' [r0] t lab tr rest1 E) as (sc & -> & Hsc). change (rev [r0] ++ sc) with (r0 :: sc).
  (* lab = r0 :: sc *)
  destruct (rev (r0 :: sc)) as [|lastr before] eqn:Er; [discriminate|].
  destruct before as [|b0 before'].
  - intros [= <- _ _]. exists (map fst (r0 :: sc)). split; [reflexivity|].
    assert (sc = []) as -> by (destruct sc as [|s1 sc']; [reflexivity|]; cbn [rev] in Er; apply (f_equal (@length _)) in Er; rewrite !app_length in Er; cbn in Er; lia).
    cbn [map bn_ok forallb rev]. rewrite E0. reflexivity.
  - (* at least two runes *)
    assert (Hsplit : exists sc0, sc = sc0 ++ [lastr]).
    { destruct (rev sc) as [|z w] eqn:Es.
      - apply (f_equal (@rev _)) in Es. rewrite rev_involutive in Es. subst sc. discriminate.
      - cbn [rev] in Er. rewrite Es in Er. cbn [app] in Er. injection Er as -> _. exists (rev w).
        apply (f_equal (@rev _)) in Es. rewrite rev_involutive in Es. cbn [rev] in Es. exact Es. }
    destruct Hsplit as (sc0 & ->).
    rewrite map_app, forallb_app in Hsc. apply andb_prop in Hsc as [Hsc0 Hlast]. cbn [map forallb] in Hlast. rewrite andb_true_r in Hlast.
    assert (Eb : rev (b0 :: before') = r0 :: sc0).
    { apply (f_equal (@rev _)) in Er. rewrite rev_involutive in Er. cbn [rev] in Er.
      change (r0 :: sc0 ++ [lastr]) with ((r0 :: sc0) ++ [lastr]) in Er. apply app_inj_tail in Er as [Er _]. symmetry. exact Er. }
    destruct (N.eqb (fst lastr) 46) eqn:Ed.
    + rewrite Eb. destruct (rev (r0 :: sc0)) as [|l2 w2] eqn:E2; [discriminate|].
      destruct (pn_chars_nt (fst l2)) eqn:Ep; [|discriminate]. intros [= <- _ _].
      exists (map fst (r0 :: sc0)). split; [reflexivity|]. cbn [map bn_ok].
      apply andb_true_intro; split; [apply andb_true_intro; split; [exact E0|exact Hsc0]|].
      rewrite <- map_rev. destruct sc0 as [|s1 sc1]; [reflexivity|].
      change (rev (r0 :: s1 :: sc1)) with (rev (s1 :: sc1) ++ [r0]) in E2.
      destruct (rev (s1 :: sc1)) as [|y ys] eqn:E3; [cbn [rev] in E3; destruct (rev sc1); discriminate|].
      cbn [app] in E2. injection E2 as E2 _. subst l2.
      match goal with |- context [map fst ?t] => replace t with (y :: ys) by (symmetry; exact E3) end. cbn [map]. exact Ep.
    + rewrite Er. destruct (pn_chars_nt (fst lastr)) eqn:Ep; [|discriminate]. intros [= <- _ _].
      exists (map fst (r0 :: sc0 ++ [lastr])). split; [reflexivity|]. cbn [map bn_ok].
      apply andb_true_intro; split; [apply andb_true_intro; split; [exact E0|]|].
      * rewrite map_app, forallb_app. apply andb_true_intro; split; [exact Hsc0|]. cbn [map forallb]. rewrite andb_true_r, Ep. reflexivity.
      * rewrite map_app. cbn [map]. rewrite rev_app_distr. cbn [rev app]. exact Ep.
Qed.

(* ---------- literals ---------- *)
Lemma open_literal_ok qt inp t v ps rest : open_literal qt inp t = POk v ps rest -> term_ok v.
Proof.
  unfold open_literal. destruct (lit_body inp [] [qt]) as [[dec raw] tr r| | |]; try discriminate.
  assert (Hplain : term_ok (TLit (map sanitize dec) xsd_string None)).
  { cbn [term_ok]. split; [apply scalars_sanitize|]. left. split; reflexivity. }
  destruct r as [|r0 rest1].
  - destruct t; [|discriminate]. intros [= <- _ _]. exact Hplain.
  - destruct (N.eqb (fst r0) 64).
    + destruct (open_langtag r0 rest1) as [tag ps' rest2| |] eqn:E2; try discriminate.
      intros [= <- _ _]. cbn [term_ok]. split; [apply scalars_sanitize|]. right. left. split; [reflexivity|].
      exists tag. split; [reflexivity|]. eapply open_langtag_ok; exact E2.
    + destruct (N.eqb (fst r0) 94).
      * destruct rest1 as [|r1 rest2]; [discriminate|]. destruct (negb (N.eqb (fst r1) 94)); [discriminate|].
        destruct rest2 as [|r2 rest3]; [discriminate|]. destruct (negb (N.eqb (fst r2) 60)); [discriminate|].
        destruct (open_iri r2 rest3) as [dt ps' rest4| |] eqn:E2; try discriminate.
        destruct (beq dt rdf_langString || beq dt rdf_dirLangString) eqn:Ed; [discriminate|].
        intros [= <- _ _]. cbn [term_ok]. split; [apply scalars_sanitize|].
        apply orb_false_iff in Ed as [E1 E3].
        destruct (beq dt xsd_string) eqn:Ex.
        -- apply beq_true_iff in Ex. subst dt. left. split; reflexivity.
        -- pose proof (open_iri_ok _ _ _ _ _ E2) as [Hsd Had]. right. right. repeat split; assumption.
      * intros [= <- _ _]. exact Hplain.
Qed.

(* ---------- terms, statements, documents ---------- *)
Definition ok_at (k : pos_kind) (t : term) : Prop :=
  term_ok t /\ match k with KPredicate => is_iri t = true | KObject => True | _ => is_lit t = false end.

Lemma capture_ok fuel : forall k inp t tr v tr' rest, capture fuel k inp t tr = Ok v tr' rest -> ok_at k v.
Proof.
  induction fuel as [|f IH]; intros k inp t tr v tr' rest; [discriminate|].
  destruct inp as [|r0 rest0]; simpl; [discriminate|].
  destruct (N.eqb (fst r0) 60).
  { destruct (open_iri r0 rest0) as [i ps rest'| |] eqn:E; try discriminate. intros [= <- _ _].
    apply open_iri_ok in E. split; [exact E|destruct k; reflexivity || exact I]. }
  destruct (N.eqb (fst r0) 95 && negb _) eqn:Eb.
  { destruct rest0 as [|r1 rest1]; [discriminate|]. destruct (N.eqb (fst r1) 58); [|discriminate].
    destruct (open_bnode r0 r1 rest1 t) as [b ps rest'| |] eqn:E; try discriminate. intros [= <- _ _].
    apply open_bnode_ok in E as (l & -> & Hl). apply andb_true_iff in Eb as [_ Ek].
    split; [exact Hl|]. destruct k; simpl in *; try reflexivity; try exact I; discriminate. }
  destruct (N.eqb (fst r0) 34 && _) eqn:El.
  { destruct (open_literal r0 rest0 t) as [l ps rest'| |] eqn:E; try discriminate. intros [= <- _ _].
    apply open_literal_ok in E. apply andb_true_iff in El as [_ Ek]. destruct k; try discriminate. split; [exact E|exact I]. }
  destruct (N.eqb (fst r0) 35).
  { destruct (drain_line rest0 [r0]) as [cm [rest'|]]; [|discriminate]. apply IH. }
  destruct (is_space (fst r0)); [apply IH|discriminate].
Qed.

Lemma after_object_ok fuel : forall nq hg inp t tr v tr' rest,
  after_object fuel nq hg inp t tr = Ok v tr' rest ->
  match v with Some g => nq = true /\ term_ok g /\ is_lit g = false | None => True end.
Proof.
  induction fuel as [|f IH]; intros nq hg inp t tr v tr' rest; [discriminate|].
  destruct inp as [|r0 rest0]; cbn [after_object]; [discriminate|].
  destruct (N.eqb (fst r0) 46); [intros [= <- _ _]; exact I|].
  destruct (N.eqb (fst r0) 35).
  { destruct (drain_line rest0 [r0]) as [cm [rest'|]]; [|discriminate]. apply IH. }
  destruct (is_space (fst r0)); [apply IH|].
  destruct (nq && negb hg) eqn:En; [|discriminate].
  destruct (capture (S (length (r0 :: rest0))) KGraph (r0 :: rest0) t []) as [g tr1 rest1| | |] eqn:E; try discriminate.
  destruct (after_object f nq true rest1 t (tr ++ tr1)) as [o tr2 rest2| | |]; try discriminate.
  intros [= <- _ _]. apply capture_ok in E as [E1 E2]. apply andb_true_iff in En as [-> _]. auto.
Qed.

Lemma statement_ok nq inp t tr q tr' rest : statement nq inp t tr = Ok q tr' rest -> quad_ok nq q.
Proof.
  unfold statement.
  destruct (capture (S (length inp)) KSubject inp t tr) as [s tr1 r1| | |] eqn:E1; try discriminate.
  destruct (capture (S (length inp)) KPredicate r1 t tr1) as [p tr2 r2| | |] eqn:E2; try discriminate.
  destruct (capture (S (length inp)) KObject r2 t tr2) as [o tr3 r3| | |] eqn:E3; try discriminate.
  destruct (after_object (S (length inp)) nq false r3 t tr3) as [g tr4 r4| | |] eqn:E4; try discriminate.
  intros [= <- _ _]. unfold quad_ok. cbn [q_s q_p q_o q_g].
  apply capture_ok in E1 as [A1 B1], E2 as [A2 B2], E3 as [A3 _]. apply after_object_ok in E4.
  repeat split; assumption.
Qed.

Lemma decode_loop_ok fuel : forall nq first inp t, Forall (quad_ok nq) (map st_quad (fst (decode_loop fuel nq first inp t))).
Proof.
  induction fuel as [|f IH]; intros nq first inp t; [constructor|]. cbn [decode_loop].
  destruct (if first then GStart [] inp else after_statement (S (length inp)) inp t []) as [tr1 r1| | | |]; try constructor.
  destruct (before_statement (S (length r1)) r1 t tr1) as [tr2 r2| | | |]; try constructor.
  destruct (statement nq r2 t tr2) as [q tr3 r3| | |] eqn:E; try constructor.
  specialize (IH nq false r3 t). destruct (decode_loop f nq false r3 t) as [l v]. simpl in *.
  constructor; [eapply statement_ok; eauto|exact IH].
Qed.

Theorem decode_ok nq inp t : Forall (quad_ok nq) (map st_quad (fst (decode nq inp t))).
Proof. apply decode_loop_ok. Qed.

Lemma quad_ok_mono q : quad_ok false q -> quad_ok true q.
Proof.
  unfold quad_ok. intros (A & B & C & D & E & F). repeat split; try assumption.
  destruct (q_g q); [destruct F as [F _]; discriminate|exact I].
Qed.

(* conversion: decode any input (N-Triples or N-Quads, whatever the reader's end), write the statements again with either
   setting of the ASCII option — as N-Quads, or as N-Triples when the input was read as N-Triples —, decode that: the same
   quads, and no error *)
Theorem pipe_preserves nq nq' ascii inp t : (nq = true -> nq' = true) ->
  let qs := map st_quad (fst (decode nq inp t)) in
  exists stmts, decode nq' (drs (encode ascii qs)) TEof = (stmts, VOk) /\ map st_quad stmts = qs.
Proof.
  intros Hn qs. apply decode_encode. pose proof (decode_ok nq inp t) as H. fold qs in H.
  destruct nq, nq'; try exact H.
  - specialize (Hn eq_refl). discriminate.
  - eapply Forall_impl; [|exact H]. apply quad_ok_mono.
Qed.

From RK Require Import Base Protocol.

Lemma calls_a_err o k s : i_err s = true -> Forall (fun be => be = (false, true)) (calls (next_a o) i_err k s).
Proof.
  revert s. induction k as [|k IH]; intros s He; simpl; [constructor|].
  unfold next_a. rewrite He. constructor; [now rewrite He|]. now apply IH.
Qed.

Lemma calls_a_done o k s : i_err s = false -> i_parsed s = true -> i_n s <= i_idx s ->
  Forall (fun be => be = (false, false)) (calls (next_a o) i_err k s).
Proof.
  revert s. induction k as [|k IH]; intros s He Hp Hn; simpl; [constructor|].
  unfold next_a. rewrite He, Hp. simpl.
  assert (E : Nat.ltb (i_idx s) (i_n s) = false) by (apply Nat.ltb_ge; lia). rewrite E, He.
  constructor; [reflexivity|]. apply IH; simpl; auto; lia.
Qed.

Theorem protocol_a o k s : latched (calls (next_a o) i_err k s).
Proof.
  revert s. induction k as [|k IH]; intros s; simpl; [exact I|].
  destruct (next_a o s) as [b s'] eqn:E. destruct b; [apply IH|].
  unfold next_a in E. destruct (i_err s) eqn:He.
  - injection E as <-. rewrite He. now apply calls_a_err.
  - destruct (i_parsed s) eqn:Hp.
    + injection E as E1 <-. simpl. rewrite He. apply Nat.ltb_ge in E1.
      apply calls_a_done; simpl; auto; lia.
    + injection E as E1 <-. simpl. apply Nat.ltb_ge in E1. simpl in E1.
      destruct (o_failed o) eqn:Hf.
      * apply calls_a_err. reflexivity.
      * apply calls_a_done; simpl; auto; lia.
Qed.

Lemma calls_b_err o k s : i_err s = true -> Forall (fun be => be = (false, true)) (calls (next_b o) i_err k s).
Proof.
  revert s. induction k as [|k IH]; intros s He; simpl; [constructor|].
  unfold next_b. rewrite He. constructor; [now rewrite He|]. now apply IH.
Qed.

Lemma calls_b_done o k s : i_err s = false -> i_parsed s = true -> i_n s <= i_idx s ->
  Forall (fun be => be = (false, false)) (calls (next_b o) i_err k s).
Proof.
  revert s. induction k as [|k IH]; intros s He Hp Hn; simpl; [constructor|].
  unfold next_b. rewrite He, Hp. rewrite He.
  assert (E : Nat.ltb (i_idx s) (i_n s) = false) by (apply Nat.ltb_ge; lia). rewrite E.
  constructor; [reflexivity|]. apply IH; simpl; auto; lia.
Qed.

Theorem protocol_b o k s : latched (calls (next_b o) i_err k s).
Proof.
  revert s. induction k as [|k IH]; intros s; simpl; [exact I|].
  destruct (next_b o s) as [b s'] eqn:E. destruct b; [apply IH|].
  unfold next_b in E. destruct (i_err s) eqn:He.
  - injection E as <-. rewrite He. now apply calls_b_err.
  - destruct (i_parsed s) eqn:Hp.
    + rewrite He in E. injection E as E1 <-. simpl. apply Nat.ltb_ge in E1.
      apply calls_b_done; simpl; auto; lia.
    + simpl in E. destruct (o_failed o) eqn:Hf.
      * injection E as <-. simpl. apply calls_b_err. reflexivity.
      * injection E as E1 <-. simpl. apply Nat.ltb_ge in E1. apply calls_b_done; simpl; auto; lia.
Qed.

Lemma calls_c_err k s : c_err s = true -> Forall (fun be => be = (false, true)) (calls next_c c_err k s).
Proof.
  revert s. induction k as [|k IH]; intros s He; simpl; [constructor|].
  unfold next_c. rewrite He. constructor; [now rewrite He|]. now apply IH.
Qed.

Lemma calls_c_end k : Forall (fun be => be = (false, false)) (calls next_c c_err k (CState false [])).
Proof. induction k as [|k IH]; simpl; [constructor|]. constructor; [reflexivity|exact IH]. Qed.

Theorem protocol_c k s : latched (calls next_c c_err k s).
Proof.
  revert s. induction k as [|k IH]; intros s; simpl; [exact I|].
  destruct (next_c s) as [b s'] eqn:E. destruct b; [apply IH|].
  unfold next_c in E. destruct (c_err s) eqn:He.
  - injection E as <-. rewrite He. now apply calls_c_err.
  - destruct (c_rest s) as [|[| |] r].
    + injection E as <-. simpl. apply calls_c_end.
    + discriminate.
    + injection E as <-. simpl. apply calls_c_end.
    + injection E as <-. simpl. apply calls_c_err. reflexivity.
Qed.

(* the former rdfxml shape (parse again while the first parse failed) violates the protocol when a
   second parse reports something else: the error flag is modelled by the outcome of each attempt *)
Definition next_rdfxml_old (attempts : list bool) (s : nat * bool) : bool * (nat * bool) :=
  (false, (S (fst s), nth (fst s) attempts false)).
Example rdfxml_old_unstable :
  calls (next_rdfxml_old [true; false]) snd 2 (0, false) = [(false, true); (false, false)].
Proof. reflexivity. Qed.

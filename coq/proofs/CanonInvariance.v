(* CanonInvariance.v — RDFC-1.0: what does not depend on blank node labels or on quad order.
   Part 1: the first-degree hash (4.6) of a blank node, for every hash function.
   Part 2: for datasets whose first-degree hashes are all distinct (no N-degree step), the canonical document. *)
From RK Require Import Base BaseFacts Xsd XsdProofs Canon CanonProofs.
From Coq Require Import Permutation Sorted.

(* ---------- sorting is a function of the multiset ---------- *)
Lemma bleb_antisym a b : bleb a b = true -> bleb b a = true -> a = b.
Proof.
  unfold bleb. rewrite (bcmp_antisym a b). destruct (bcmp a b) eqn:E; cbn; try discriminate.
  intros _ _. now apply bcmp_eq.
Qed.

Lemma bleb_refl a : bleb a a = true.
Proof. unfold bleb. now rewrite bcmp_refl. Qed.

Lemma sorted_perm_eq (l1 : list bytes) : forall l2,
  StronglySorted (fun a b => bleb a b = true) l1 -> StronglySorted (fun a b => bleb a b = true) l2 ->
  Permutation l1 l2 -> l1 = l2.
Proof.
  induction l1 as [|a l1 IH]; intros l2 S1 S2 P.
  - apply Permutation_nil in P. now subst.
  - destruct l2 as [|b l2]; [apply Permutation_sym, Permutation_nil in P; discriminate|].
    inversion S1 as [|? ? S1' F1]; subst. inversion S2 as [|? ? S2' F2]; subst.
    assert (E : a = b).
    { assert (Ha : In a (b :: l2)) by (eapply Permutation_in; [exact P|now left]).
      assert (Hb : In b (a :: l1)) by (eapply Permutation_in; [symmetry; exact P|now left]).
      destruct Ha as [->|Ha]; [reflexivity|]. destruct Hb as [->|Hb]; [reflexivity|].
      rewrite Forall_forall in F1, F2. apply bleb_antisym; auto. }
    subst b. f_equal. apply IH; try assumption. eapply Permutation_cons_inv; exact P.
Qed.

Lemma isort_perm_inv (l l' : list bytes) : Permutation l l' -> isort bleb l = isort bleb l'.
Proof.
  intros P. apply sorted_perm_eq; try (apply isort_sorted; [apply bleb_total|apply bleb_trans]).
  eapply perm_trans; [symmetry; apply isort_perm|]. eapply perm_trans; [exact P|apply isort_perm].
Qed.

Lemma perm_flat_map {A B} (f : A -> list B) l l' : Permutation l l' -> Permutation (flat_map f l) (flat_map f l').
Proof.
  induction 1 as [|x l l' P IH|x y l|l l' l'' P1 IH1 P2 IH2]; simpl.
  - constructor.
  - now apply Permutation_app_head.
  - rewrite !app_assoc. apply Permutation_app_tail, Permutation_app_comm.
  - eapply perm_trans; eassumption.
Qed.

(* ---------- renaming ---------- *)
Definition ren_c (f : bytes -> bytes) (c : comp) : comp := match c with CB l => CB (f l) | CT t => CT t end.
Definition ren (f : bytes -> bytes) (q : cquad) : cquad :=
  CQ (ren_c f (q_s q)) (q_p q) (ren_c f (q_o q)) (option_map (ren_c f) (q_g q)).

Section Inv.
Variable H : bytes -> bytes.
Variable f : bytes -> bytes.
Hypothesis f_inj : forall a b, f a = f b -> a = b.

Lemma beq_f a b : beq (f a) (f b) = beq a b.
Proof.
  destruct (beq a b) eqn:E.
  - apply beq_true_iff in E. subst. apply beq_refl.
  - apply beq_false_iff in E. apply beq_false_iff. intros E2. apply E. now apply f_inj.
Qed.

Lemma is_bn_ren n c : is_bn (f n) (ren_c f c) = is_bn n c.
Proof. destruct c; simpl; [apply beq_f|reflexivity]. Qed.

Lemma refs_ren n q : refs (f n) (ren f q) = map (ren f) (refs n q).
Proof.
  unfold refs. cbn [ren q_s q_o q_g]. rewrite !is_bn_ren.
  assert (Eg : is_bn_o (f n) (option_map (ren_c f) (q_g q)) = is_bn_o n (q_g q)).
  { destruct (q_g q); simpl; [apply is_bn_ren|reflexivity]. }
  rewrite Eg. rewrite !map_app.
  destruct (is_bn n (q_s q)), (is_bn n (q_o q)), (is_bn_o n (q_g q)); reflexivity.
Qed.

Lemma quads_of_ren qs n : quads_of (map (ren f) qs) (f n) = map (ren f) (quads_of qs n).
Proof.
  unfold quads_of. induction qs as [|q qs IH]; simpl; [reflexivity|]. now rewrite map_app, IH, refs_ren.
Qed.

Lemma ser_quad_ren (m m' : bytes -> bytes) q : (forall l, m' (f l) = m l) -> ser_quad m' (ren f q) = ser_quad m q.
Proof.
  intros Hm. unfold ser_quad. cbn [ren q_s q_p q_o q_g].
  assert (Hc : forall c, match ren_c f c with CB l => s2b "_:" ++ m' l | CT t => t end
                         = match c with CB l => s2b "_:" ++ m l | CT t => t end).
  { intros [l|t]; simpl; [now rewrite Hm|reflexivity]. }
  rewrite !Hc. destruct (q_g q) as [c|]; simpl; [now rewrite Hc|reflexivity].
Qed.

(* 4.6: the first-degree hash of a blank node depends neither on the labels nor on the order of the quads *)
Theorem hash_first_degree_invariant qs qs' n :
  Permutation qs' (map (ren f) qs) ->
  hash_first_degree H qs' (f n) = hash_first_degree H qs n.
Proof.
  intros P. unfold hash_first_degree. f_equal. f_equal. apply isort_perm_inv.
  eapply perm_trans.
  - apply Permutation_map. unfold quads_of. apply perm_flat_map. exact P.
  - fold (quads_of (map (ren f) qs) (f n)). rewrite quads_of_ren, map_map.
    erewrite map_ext; [reflexivity|]. intros q. apply ser_quad_ren. intros l. now rewrite beq_f.
Qed.

End Inv.

(* ================= Part 2: datasets whose first-degree hashes are all distinct ================= *)

(* ---------- helper facts ---------- *)
Lemma existsb_beq_In x l : existsb (beq x) l = true <-> In x l.
Proof.
  rewrite existsb_exists. split.
  - intros (y & Hy & E). apply beq_true_iff in E. now subst.
  - intros Hx. exists x. split; [assumption|apply beq_refl].
Qed.

Lemma nodup_b_In x l : In x (nodup_b beq l) <-> In x l.
Proof.
  induction l as [|y l IH]; simpl; [tauto|].
  destruct (existsb (beq y) l) eqn:E.
  - apply existsb_beq_In in E. rewrite IH. split; [auto|intros [->|Hx]; assumption].
  - simpl. now rewrite IH.
Qed.

Lemma nodup_b_NoDup l : NoDup (nodup_b beq l).
Proof.
  induction l as [|y l IH]; simpl; [constructor|].
  destruct (existsb (beq y) l) eqn:E; [exact IH|].
  constructor; [|exact IH]. rewrite nodup_b_In. intros Hy. apply existsb_beq_In in Hy. congruence.
Qed.

Lemma add_group_fresh h n m : ~ In h (map fst m) -> add_group h n m = m ++ [(h, [n])].
Proof.
  induction m as [|[k v] t IH]; simpl; intros Hn; [reflexivity|].
  destruct (beq k h) eqn:E; [apply beq_true_iff in E; subst; exfalso; apply Hn; now left|].
  f_equal. apply IH. intros Hi. apply Hn. now right.
Qed.

Lemma group_all_distinct l : forall m,
  NoDup (map fst m ++ map fst l) -> group_all l m = m ++ map (fun p => (fst p, [snd p])) l.
Proof.
  induction l as [|[h n] t IH]; intros m Hnd; simpl; [now rewrite app_nil_r|].
  simpl in Hnd. rewrite add_group_fresh.
  - rewrite IH; [now rewrite <- app_assoc|]. rewrite map_app, <- app_assoc. exact Hnd.
  - apply NoDup_remove_2 in Hnd. intros Hi. apply Hnd. apply in_or_app. now left.
Qed.

Section Keyed.
  Context {A : Type} (key : A -> bytes).
  Let le (a b : A) : bool := bleb (key a) (key b).

  Lemma key_inj_on l a b : NoDup (map key l) -> In a l -> In b l -> key a = key b -> a = b.
  Proof.
    induction l as [|x l IH]; intros Hnd Ha Hb E; [destruct Ha|].
    simpl in Hnd. inversion Hnd as [|? ? Hn Hnd']; subst.
    destruct Ha as [->|Ha], Hb as [->|Hb]; try reflexivity.
    - exfalso. apply Hn. rewrite E. now apply in_map.
    - exfalso. apply Hn. rewrite <- E. now apply in_map.
    - now apply IH.
  Qed.

  Lemma sorted_perm_eq_key (l1 : list A) : forall l2,
    NoDup (map key l1) ->
    StronglySorted (fun a b => le a b = true) l1 -> StronglySorted (fun a b => le a b = true) l2 ->
    Permutation l1 l2 -> l1 = l2.
  Proof.
    induction l1 as [|a l1 IH]; intros l2 Hnd S1 S2 P.
    - apply Permutation_nil in P. now subst.
    - destruct l2 as [|b l2]; [apply Permutation_sym, Permutation_nil in P; discriminate|].
      inversion S1 as [|? ? S1' F1]; subst. inversion S2 as [|? ? S2' F2]; subst.
      assert (E : a = b).
      { assert (Ha : In a (b :: l2)) by (eapply Permutation_in; [exact P|now left]).
        assert (Hb : In b (a :: l1)) by (eapply Permutation_in; [symmetry; exact P|now left]).
        destruct Ha as [->|Ha]; [reflexivity|]. destruct Hb as [->|Hb]; [reflexivity|].
        rewrite Forall_forall in F1, F2.
        apply (key_inj_on (a :: l1)); [exact Hnd|now left|now right|].
        apply bleb_antisym; [apply (F1 b Hb)|apply (F2 a Ha)]. }
      subst b. f_equal. simpl in Hnd. inversion Hnd; subst.
      apply IH; try assumption. eapply Permutation_cons_inv; exact P.
  Qed.

  Lemma isort_perm_inv_key l l' : NoDup (map key l) -> Permutation l l' -> isort le l = isort le l'.
  Proof.
    intros Hnd P.
    assert (Ht : forall a b, le a b = true \/ le b a = true) by (intros; apply bleb_total).
    assert (Hr : forall a b c, le a b = true -> le b c = true -> le a c = true) by (intros a b c; apply bleb_trans).
    apply sorted_perm_eq_key; try (apply isort_sorted; assumption).
    - eapply Permutation_NoDup; [|exact Hnd]. apply Permutation_map, isort_perm.
    - eapply perm_trans; [symmetry; apply isort_perm|]. eapply perm_trans; [exact P|apply isort_perm].
  Qed.
End Keyed.

Lemma insert_sorted_map {A B} (F : A -> B) le le' x l :
  (forall a b, le' (F a) (F b) = le a b) ->
  insert_sorted le' (F x) (map F l) = map F (insert_sorted le x l).
Proof.
  intros Hle. induction l as [|y l IH]; simpl; [reflexivity|].
  rewrite Hle. destruct (le x y); simpl; [reflexivity|]. now rewrite IH.
Qed.

Lemma isort_map {A B} (F : A -> B) le le' l :
  (forall a b, le' (F a) (F b) = le a b) -> isort le' (map F l) = map F (isort le l).
Proof.
  intros Hle. induction l as [|x l IH]; simpl; [reflexivity|].
  unfold isort in *. simpl. rewrite IH. now apply insert_sorted_map.
Qed.

Lemma map_snd_combine {A B} (a : list A) : forall (b : list B), length a = length b -> map snd (combine a b) = b.
Proof.
  induction a as [|x a IH]; intros [|y b] E; try discriminate; [reflexivity|].
  simpl. f_equal. apply IH. now inversion E.
Qed.

Lemma filter_none {A} (p : A -> bool) l : (forall x, In x l -> p x = false) -> filter p l = [].
Proof.
  induction l as [|x l IH]; intros Hp; simpl; [reflexivity|].
  rewrite (Hp x) by now left. apply IH. intros y Hy. apply Hp. now right.
Qed.

Lemma issue_all_noop l : forall c, (forall x, In x l -> lookup c x <> None) -> issue_all c l = c.
Proof.
  unfold issue_all. induction l as [|x l IH]; intros c Hk; cbn [fold_left]; [reflexivity|].
  assert (E : snd (issue c x) = c).
  { unfold issue. destruct (lookup c x) eqn:L; [reflexivity|]. exfalso. apply (Hk x); [now left|exact L]. }
  rewrite E. apply IH. intros y Hy. apply Hk. now right.
Qed.

(* ---------- the canonical result of a dataset with distinct first-degree hashes, in closed form ---------- *)
Definition step4 (sorted : list (bytes * list bytes)) (c : issuer) : issuer :=
  fold_left (fun c g => match snd g with [n] => snd (issue c n) | _ => c end) sorted c.

Lemma step4_keeps S : forall c x v, lookup c x = Some v -> lookup (step4 S c) x = Some v.
Proof.
  unfold step4. induction S as [|g S IH]; intros c x v L; cbn [fold_left]; [exact L|].
  apply IH. destruct (snd g) as [|n [|? ?]]; try exact L. now apply issue_keeps.
Qed.

Lemma step4_knows S : forall c k n, In (k, [n]) S -> lookup (step4 S c) n <> None.
Proof.
  unfold step4. induction S as [|g S IH]; intros c k n Hin; [destruct Hin|]. cbn [fold_left].
  destruct Hin as [->|Hin]; [|eapply IH; exact Hin].
  cbn [snd]. destruct (lookup (snd (issue c n)) n) as [v|] eqn:L; [|exfalso; eapply issue_knows; exact L].
  fold (step4 S (snd (issue c n))). rewrite (step4_keeps S _ n v L). discriminate.
Qed.

Section Simple.
Variable H : bytes -> bytes.

Definition simple (qs : list cquad) : Prop := NoDup (map (hash_first_degree H qs) (bnodes qs)).
Definition m_of (qs : list cquad) : list (bytes * list bytes) :=
  map (fun n => (hash_first_degree H qs n, [n])) (bnodes qs).
Definition c1_of (qs : list cquad) : issuer := step4 (isort by_hash (m_of qs)) (Issuer (s2b "c14n") []).
Definition by_text (a b : nat * bytes) : bool := bleb (snd a) (snd b).

Lemma sorted_m_of_singletons qs g : In g (isort by_hash (m_of qs)) -> exists n, In n (bnodes qs) /\ g = (hash_first_degree H qs n, [n]).
Proof.
  intros Hg. assert (Hm : In g (m_of qs)) by (eapply Permutation_in; [symmetry; apply isort_perm|exact Hg]).
  unfold m_of in Hm. apply in_map_iff in Hm as (n & <- & Hn). eauto.
Qed.

Theorem canonicalize_simple qs :
  simple qs ->
  canonicalize H qs =
    COk (isort by_text (combine (seq 0 (length qs)) (map (ser_quad (id_of (c1_of qs))) qs))) (c1_of qs).
Proof.
  intros Hs. unfold canonicalize.
  assert (Em : group_all (map (fun n => (hash_first_degree H qs n, n)) (bnodes qs)) [] = m_of qs).
  { rewrite group_all_distinct; [simpl; unfold m_of; now rewrite map_map|].
    simpl. rewrite map_map. simpl. exact Hs. }
  rewrite Em. fold (step4 (isort by_hash (m_of qs)) (Issuer (s2b "c14n") [])). fold (c1_of qs).
  rewrite filter_none.
  2:{ intros g Hg. apply sorted_m_of_singletons in Hg as (n & _ & ->). reflexivity. }
  cbn [step5].
  assert (Ek : issue_all (c1_of qs) (flat_map quad_labels qs) = c1_of qs).
  { apply issue_all_noop. intros x Hx. unfold c1_of.
    apply (step4_knows _ _ (hash_first_degree H qs x) x).
    eapply Permutation_in; [apply isort_perm|]. unfold m_of. apply in_map_iff. exists x. split; [reflexivity|].
    unfold bnodes. now apply nodup_b_In. }
  rewrite Ek. reflexivity.
Qed.

(* ---------- renaming and reordering ---------- *)
Variable f : bytes -> bytes.
Hypothesis f_inj : forall a b, f a = f b -> a = b.

Lemma quad_labels_ren q : quad_labels (ren f q) = map f (quad_labels q).
Proof.
  unfold quad_labels. cbn [ren q_s q_o q_g]. rewrite !map_app.
  destruct (q_s q), (q_o q), (q_g q) as [[?|?]|]; reflexivity.
Qed.

Lemma labels_ren qs : flat_map quad_labels (map (ren f) qs) = map f (flat_map quad_labels qs).
Proof. induction qs as [|q qs IH]; simpl; [reflexivity|]. now rewrite map_app, IH, quad_labels_ren. Qed.

Lemma bnodes_perm qs qs' : Permutation qs' (map (ren f) qs) -> Permutation (bnodes qs') (map f (bnodes qs)).
Proof.
  intros P. apply NoDup_Permutation.
  - apply nodup_b_NoDup.
  - apply FinFun.Injective_map_NoDup; [exact f_inj|apply nodup_b_NoDup].
  - intros x. unfold bnodes. rewrite nodup_b_In.
    assert (PL : Permutation (flat_map quad_labels qs') (map f (flat_map quad_labels qs))).
    { rewrite <- labels_ren. now apply perm_flat_map. }
    split.
    + intros Hx. apply (Permutation_in _ PL) in Hx. apply in_map_iff in Hx as (y & <- & Hy).
      apply in_map. now apply nodup_b_In.
    + intros Hx. apply in_map_iff in Hx as (y & <- & Hy). apply -> nodup_b_In in Hy.
      apply (Permutation_in _ (Permutation_sym PL)). now apply in_map.
Qed.

Definition ren_i (c : issuer) : issuer := Issuer (i_prefix c) (map (fun p => (f (fst p), snd p)) (i_issued c)).
Definition ren_g (g : bytes * list bytes) : bytes * list bytes := (fst g, map f (snd g)).

Lemma assoc_ren n l : assoc (f n) (map (fun p => (f (fst p), snd p)) l) = assoc n l.
Proof. induction l as [|[a b] t IH]; simpl; [reflexivity|]. rewrite (beq_f f f_inj). now rewrite IH. Qed.

Lemma lookup_ren c n : lookup (ren_i c) (f n) = lookup c n.
Proof. unfold lookup, ren_i. cbn [i_issued]. apply assoc_ren. Qed.

Lemma issue_ren c n : snd (issue (ren_i c) (f n)) = ren_i (snd (issue c n)).
Proof.
  unfold issue. rewrite lookup_ren. destruct (lookup c n); [reflexivity|].
  cbn [snd]. unfold ren_i. cbn [i_prefix i_issued]. now rewrite map_length, map_app.
Qed.

Lemma step4_ren S : forall c, step4 (map ren_g S) (ren_i c) = ren_i (step4 S c).
Proof.
  unfold step4. induction S as [|g S IH]; intros c; cbn [map fold_left]; [reflexivity|].
  unfold ren_g at 2. cbn [snd]. destruct (snd g) as [|n [|n2 r]]; cbn [map]; try apply IH.
  rewrite issue_ren. apply IH.
Qed.

Lemma simple_ren qs qs' : Permutation qs' (map (ren f) qs) -> simple qs -> simple qs'.
Proof.
  intros P Hs. unfold simple in *.
  eapply Permutation_NoDup; [symmetry; apply Permutation_map, (bnodes_perm qs qs' P)|].
  rewrite map_map. erewrite map_ext; [exact Hs|].
  intros n. now apply hash_first_degree_invariant.
Qed.

Lemma c1_ren qs qs' : Permutation qs' (map (ren f) qs) -> simple qs -> c1_of qs' = ren_i (c1_of qs).
Proof.
  intros P Hs. unfold c1_of.
  assert (Es : isort by_hash (m_of qs') = map ren_g (isort by_hash (m_of qs))).
  { rewrite <- (isort_map ren_g by_hash by_hash) by reflexivity.
    apply (isort_perm_inv_key fst).
    - unfold m_of. rewrite map_map. cbn [fst]. exact (simple_ren qs qs' P Hs).
    - unfold m_of. eapply perm_trans; [apply Permutation_map, (bnodes_perm qs qs' P)|].
      rewrite !map_map. unfold ren_g. cbn [fst snd map].
      erewrite map_ext; [reflexivity|]. intros n. cbn. f_equal. now apply hash_first_degree_invariant. }
  rewrite Es. change (Issuer (s2b "c14n") []) with (ren_i (Issuer (s2b "c14n") [])) at 1. apply step4_ren.
Qed.

(* for a dataset whose first-degree hashes are pairwise distinct, the canonical document is the same for every
   relabelling of its blank nodes and every order of its quads, and the issued identifiers correspond *)
Theorem canon_simple_invariant qs qs' :
  simple qs -> Permutation qs' (map (ren f) qs) ->
  exists lines c lines' c',
    canonicalize H qs = COk lines c /\ canonicalize H qs' = COk lines' c' /\
    map snd lines = map snd lines' /\ (forall l, lookup c' (f l) = lookup c l).
Proof.
  intros Hs P. pose proof (simple_ren qs qs' P Hs) as Hs'.
  do 4 eexists. split; [apply canonicalize_simple, Hs|]. split; [apply canonicalize_simple, Hs'|].
  rewrite (c1_ren qs qs' P Hs). split; [|intros l; apply lookup_ren].
  unfold by_text.
  rewrite <- !(isort_map snd (fun a b => bleb (snd a) (snd b)) bleb) by reflexivity.
  rewrite !map_snd_combine by (now rewrite seq_length, map_length).
  symmetry. apply isort_perm_inv.
  eapply perm_trans; [apply Permutation_map, P|]. rewrite map_map.
  erewrite map_ext; [reflexivity|]. intros q. apply (ser_quad_ren f). intros l. unfold id_of. now rewrite lookup_ren.
Qed.

End Simple.

(* the renaming, spelled out *)
Lemma ren_spelled f q :
  ren f q = CQ (match q_s q with CB l => CB (f l) | x => x end) (q_p q)
               (match q_o q with CB l => CB (f l) | x => x end)
               (match q_g q with Some (CB l) => Some (CB (f l)) | x => x end).
Proof. unfold ren, ren_c. destruct (q_s q), (q_o q), (q_g q) as [[?|?]|]; reflexivity. Qed.

(* the two theorems with the renaming written out (the form used in props/C03.v) *)
Definition renamed (f : bytes -> bytes) (q : cquad) : cquad :=
  CQ (match q_s q with CB l => CB (f l) | x => x end) (q_p q)
     (match q_o q with CB l => CB (f l) | x => x end)
     (match q_g q with Some (CB l) => Some (CB (f l)) | x => x end).

Lemma map_renamed f qs : map (renamed f) qs = map (ren f) qs.
Proof. apply map_ext. intros q. symmetry. apply ren_spelled. Qed.

Theorem first_degree_invariant_spelled H f qs qs' n :
  (forall a b, f a = f b -> a = b) -> Permutation qs' (map (renamed f) qs) ->
  hash_first_degree H qs' (f n) = hash_first_degree H qs n.
Proof. intros Hf P. rewrite map_renamed in P. now apply hash_first_degree_invariant. Qed.

Theorem simple_invariant_spelled H f qs qs' :
  (forall a b, f a = f b -> a = b) ->
  NoDup (map (hash_first_degree H qs) (bnodes qs)) ->
  Permutation qs' (map (renamed f) qs) ->
  exists lines c lines' c',
    canonicalize H qs = COk lines c /\ canonicalize H qs' = COk lines' c' /\
    map snd lines = map snd lines' /\ (forall l, lookup c' (f l) = lookup c l).
Proof. intros Hf Hs P. rewrite map_renamed in P. exact (canon_simple_invariant H f Hf qs qs' Hs P). Qed.

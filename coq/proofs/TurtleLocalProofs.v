(* TurtleLocalProofs.v — whatever format_PN_LOCAL writes, the PN_LOCAL scanner of producePrefixedName reads back as the
   same string, consuming exactly what was written. *)
From RK Require Import Base BaseFacts Utf8 Runes NQ TurtleTok.

(* what may follow a prefixed name without being taken for part of it *)
Definition local_delim (rest : list N) : Prop :=
  match rest with
  | [] => True
  | c :: _ => pn_chars c = false /\ c <> 46%N /\ c <> 58%N /\ c <> 37%N /\ c <> 92%N
  end.

(* no character of the string takes the percent-encoding path (those are characters no IRI contains) *)
Definition no_pct (l : list N) : Prop := forall c f la, In c l -> local_mode c f la <> LPct.

Lemma pn_chars_u_sub c : pn_chars_u c = true -> pn_chars c = true.
Proof. unfold pn_chars. intros ->. reflexivity. Qed.

Lemma digit_sub c : is_digit c = true -> pn_chars c = true.
Proof. unfold pn_chars. intros ->. now rewrite !orb_true_r. Qed.

Lemma fmt_esc_sub c : fmt_esc_set c = true -> local_esc c = true.
Proof.
  unfold fmt_esc_set, local_esc, memN. cbn [existsb]. intros H.
  repeat (apply orb_true_iff in H; destruct H as [H|H]; [rewrite H; now rewrite ?orb_true_r|]). discriminate.
Qed.

Lemma eqb_false_of c d : c <> d -> N.eqb c d = false.
Proof. intros H. now apply N.eqb_neq. Qed.

Lemma delim_unit first rest : local_delim rest -> local_unit first rest = SEnd.
Proof.
  destruct rest as [|c r]; [reflexivity|]. cbn [local_delim local_unit]. intros (H1 & H2 & H3 & H4 & H5).
  assert (pn_chars_u c = false) as U.
  { destruct (pn_chars_u c) eqn:E; [apply pn_chars_u_sub in E; congruence|reflexivity]. }
  assert (is_digit c = false) as D.
  { destruct (is_digit c) eqn:E; [apply digit_sub in E; congruence|reflexivity]. }
  rewrite H1, U, D, (eqb_false_of _ _ H2), (eqb_false_of _ _ H3), (eqb_false_of _ _ H4), (eqb_false_of _ _ H5).
  destruct first; reflexivity.
Qed.

(* the unit written for one character is read back as that character *)
Lemma unit_roundtrip c first last tail :
  (first = true -> True) ->
  local_mode c first last <> LInvalid -> local_mode c first last <> LPct ->
  local_unit first (local_unit_of c (local_mode c first last) ++ tail) = SOne [c] (local_unit_of c (local_mode c first last)) tail.
Proof.
  intros _ Hi Hp. unfold local_mode in *.
  destruct (N.eqb c 46) eqn:E46.
  { apply N.eqb_eq in E46. subst c. destruct (first || last) eqn:FL.
    - cbn [local_unit_of app local_unit]. destruct first; reflexivity.
    - apply orb_false_iff in FL. destruct FL as [-> _]. reflexivity. }
  destruct (N.eqb c 58 || pn_chars_u c || is_digit c) eqn:E1.
  { cbn [local_unit_of app local_unit].
    assert (pn_chars c || N.eqb c 46 || N.eqb c 58 = true) as P.
    { apply orb_true_iff in E1. destruct E1 as [E1|E1].
      - apply orb_true_iff in E1. destruct E1 as [E1|E1]; [rewrite E1; now rewrite orb_true_r|rewrite (pn_chars_u_sub _ E1); reflexivity].
      - rewrite (digit_sub _ E1). reflexivity. }
    assert (pn_chars_u c || N.eqb c 58 || is_digit c = true) as Q.
    { apply orb_true_iff in E1. destruct E1 as [E1|E1].
      - apply orb_true_iff in E1. destruct E1 as [E1|E1]; rewrite E1; now rewrite ?orb_true_r.
      - rewrite E1. now rewrite orb_true_r. }
    destruct first; [rewrite Q|rewrite P]; reflexivity. }
  apply orb_false_iff in E1. destruct E1 as [E1 ED]. apply orb_false_iff in E1. destruct E1 as [E58 EU].
  destruct (N.eqb c 45) eqn:E45.
  { apply N.eqb_eq in E45. subst c. destruct first; reflexivity. }
  destruct (pn_chars c) eqn:EP.
  { destruct first; [congruence|]. cbn [local_unit_of app local_unit]. rewrite EP. reflexivity. }
  destruct (fmt_esc_set c) eqn:EE.
  { cbn [local_unit_of app local_unit].
    assert (N.eqb 92 58 = false) by reflexivity. assert (pn_chars_u 92 = false) by reflexivity.
    assert (is_digit 92 = false) by reflexivity. assert (pn_chars 92 = false) by reflexivity.
    rewrite (fmt_esc_sub _ EE). destruct first; reflexivity. }
  destruct (N.eqb c 91 || N.eqb c 93); [congruence|].
  destruct (127 <? c)%N; congruence.
Qed.

Definition is_nil (t : list N) : bool := match t with [] => true | _ => false end.

Lemma fmt_go_cons c t first e :
  fmt_local_go (c :: t) first = Some e ->
  exists e', fmt_local_go t false = Some e' /\ e = local_unit_of c (local_mode c first (is_nil t)) ++ e' /\ local_mode c first (is_nil t) <> LInvalid.
Proof.
  cbn [fmt_local_go]. fold (is_nil t). intros H.
  destruct (local_mode c first (is_nil t)) eqn:M; try discriminate;
    destruct (fmt_local_go t false) as [e'|]; try discriminate; inversion H; subst;
    exists e'; repeat split; congruence.
Qed.

Lemma unit_len c m : m <> LInvalid -> 1 <= length (local_unit_of c m).
Proof. destruct m; cbn; intros; try lia; congruence. Qed.

Lemma loop_roundtrip rest : local_delim rest -> forall l first e dec raw fuel,
  fmt_local_go l first = Some e -> no_pct l -> length (e ++ rest) < fuel ->
  local_loop fuel first (e ++ rest) dec raw = Some (rev l ++ dec, rev e ++ raw, rest).
Proof.
  intros Hd. induction l as [|c t IH]; intros first e dec raw fuel H Hn Hf.
  - cbn in H. inversion H; subst. cbn [app rev]. destruct fuel; [lia|]. cbn [local_loop]. rewrite (delim_unit _ _ Hd). reflexivity.
  - apply fmt_go_cons in H. destruct H as (e' & H1 & -> & Hi).
    destruct fuel; [lia|]. cbn [local_loop]. rewrite <- app_assoc.
    rewrite unit_roundtrip; [|auto|exact Hi|apply Hn; left; reflexivity].
    pose proof (unit_len c _ Hi) as L.
    rewrite IH; [|exact H1|intros x f la Hx; apply Hn; right; exact Hx|rewrite !app_length in *; lia].
    cbn [rev]. rewrite rev_app_distr. rewrite <- !app_assoc. reflexivity.
Qed.

(* the last rune written is never an unescaped '.' *)
Lemma fmt_last_rune : forall l first e, fmt_local_go l first = Some e -> no_pct l ->
  match rev e with
  | c :: p :: _ => c = 46%N -> p = 92%N
  | [c] => c <> 46%N
  | [] => True
  end.
Proof.
  induction l as [|c t IH]; intros first e H Hn.
  - cbn in H. inversion H. exact I.
  - apply fmt_go_cons in H. destruct H as (e' & H1 & -> & Hi).
    assert (Hn' : no_pct t) by (intros x f la Hx; apply Hn; right; exact Hx).
    specialize (IH false e' H1 Hn').
    destruct t as [|c2 t2].
    + cbn in H1. inversion H1; subst e'. rewrite app_nil_r.
      specialize (Hn c first true (or_introl eq_refl)).
      unfold local_mode in *.
      destruct (N.eqb c 46) eqn:E46.
      { rewrite orb_true_r. cbn. intros _. reflexivity. }
      apply N.eqb_neq in E46.
      destruct (N.eqb c 58 || pn_chars_u c || is_digit c); [cbn; exact E46|].
      destruct (N.eqb c 45); [destruct first; cbn; [intros; congruence|exact E46]|].
      destruct (pn_chars c); [destruct first; [congruence|cbn; exact E46]|].
      destruct (fmt_esc_set c); [cbn; intros; congruence|].
      destruct (N.eqb c 91 || N.eqb c 93); [congruence|].
      destruct (127 <? c)%N; congruence.
    + rewrite rev_app_distr.
      assert (e' <> []) as Ne.
      { apply fmt_go_cons in H1. destruct H1 as (e2 & _ & -> & Hi2).
        pose proof (unit_len c2 _ Hi2). destruct (local_unit_of c2 _); cbn in *; [lia|discriminate]. }
      destruct (rev e') as [|x [|y r]] eqn:R.
      * apply (f_equal (@rev N)) in R. rewrite rev_involutive in R. cbn in R. congruence.
      * cbn [app].
        pose proof (unit_len c _ Hi) as L.
        destruct (rev (local_unit_of c (local_mode c first (is_nil (c2 :: t2))))) as [|z zs] eqn:RZ.
        { exact IH. }
        intros Hx. congruence.
      * cbn [app]. exact IH.
Qed.

Lemma trim_keep fuel dec raw rest :
  match raw with
  | c :: p :: _ => c = 46%N -> p = 92%N
  | [c] => c <> 46%N
  | [] => True
  end -> local_trim fuel dec raw rest = (dec, raw, rest).
Proof.
  destruct fuel; [reflexivity|]. cbn [local_trim].
  destruct raw as [|c [|p r]]; intros H; [reflexivity| |].
  - rewrite (eqb_false_of _ _ H). reflexivity.
  - destruct (N.eqb c 46) eqn:E; [|reflexivity]. apply N.eqb_eq in E. rewrite (H E). reflexivity.
Qed.

Theorem local_roundtrip l e rest :
  fmt_local l = Some e -> no_pct l -> local_delim rest -> lex_local (e ++ rest) = Some (l, rest).
Proof.
  intros H Hn Hd. unfold lex_local, fmt_local in *.
  rewrite (loop_roundtrip rest Hd l true e [] [] _ H Hn) by lia.
  rewrite !app_nil_r. rewrite trim_keep by (apply (fmt_last_rune l true e H Hn)).
  rewrite rev_involutive. reflexivity.
Qed.

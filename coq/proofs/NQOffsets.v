(* NQOffsets.v — commit discipline of the N-Triples / N-Quads decoder model: the runes committed to
   the offset tracker are exactly the consumed input, each once and in order; reader failures are
   never reported as a clean end *)
From RK Require Import Base BaseFacts Utf8 Runes NQ NQTotal.
Arguments uchar8_dec : simpl never.
Arguments uchar4_dec : simpl never.

Definition flat_parts (ps : list part) : list drune := flat_map snd ps.
Definition flat_ev (e : cev) : list drune := match e with CPlain rs => rs | CTerm ps => flat_parts ps end.
Definition flat_tr (tr : list cev) : list drune := flat_map flat_ev tr.

Ltac lnorm := repeat (progress (repeat rewrite <- app_assoc; simpl; repeat rewrite app_nil_r)).
Ltac lsolve := split; unfold flat_tr, flat_parts in *; simpl in *; lnorm; auto; try congruence.

Lemma flat_tr_app a b : flat_tr (a ++ b) = flat_tr a ++ flat_tr b.
Proof. unfold flat_tr. apply flat_map_app. Qed.

(* body scanners: what they return as "raw" is the accumulated prefix followed by what they consumed *)
Lemma iri_body_raw_n n : forall inp dec raw v rawout rest tr, length inp <= n ->
  iri_body inp dec raw = Ok (v, rawout) tr rest -> exists c, rawout = rev raw ++ c /\ inp = c ++ rest.
Proof.
  induction n as [|n IHn]; intros inp dec raw v rawout rest tr Hn.
  { destruct inp; [simpl; discriminate|simpl in Hn; lia]. }
  assert (IH : forall inp2 dec2 raw2 v2 ro2 rest2 tr2, length inp2 < length inp ->
            iri_body inp2 dec2 raw2 = Ok (v2, ro2) tr2 rest2 -> exists c, ro2 = rev raw2 ++ c /\ inp2 = c ++ rest2)
    by (intros; eapply IHn; [lia|eassumption]).
  clear IHn. destruct inp as [|r0 inp']; simpl; [discriminate|].
  destruct (N.eqb (fst r0) 62).
  { intros [= _ <- _ <-]. exists [r0]. simpl. auto. }
  destruct (N.eqb (fst r0) 92).
  - destruct inp' as [|r1 rest1]; [discriminate|].
    destruct (N.eqb (fst r1) 117).
    + destruct rest1 as [|a [|b [|c [|d rest2]]]]; try (destruct (uchar4_dec _); discriminate).
      destruct (hexv (fst a)), (hexv (fst b)), (hexv (fst c)), (hexv (fst d)); try discriminate.
      intros H. apply IH in H; [|simpl; lia]. destruct H as (c0 & -> & ->).
      exists (r0 :: r1 :: a :: b :: c :: d :: c0). simpl. rewrite <- !app_assoc. simpl. auto.
    + destruct (N.eqb (fst r1) 85); [|discriminate].
      destruct rest1 as [|a [|b [|c [|d [|e [|f [|g [|h rest2]]]]]]]]; try (destruct (uchar8_dec _); discriminate).
      destruct (uchar8_dec [a; b; c; d; e; f; g; h]) as [[v0 ?] ? ?| | |]; try discriminate.
      intros H. apply IH in H; [|simpl; lia]. destruct H as (c0 & -> & ->).
      exists (r0 :: r1 :: a :: b :: c :: d :: e :: f :: g :: h :: c0). simpl. rewrite <- !app_assoc. simpl. auto.
  - match goal with |- context [if ?c then Bad else iri_body _ _ _] => destruct c end; [discriminate|].
    intros H. apply IH in H; [|simpl; lia]. destruct H as (c0 & -> & ->).
    exists (r0 :: c0). simpl. rewrite <- app_assoc. auto.
Qed.

Lemma lit_body_raw_n n : forall inp dec raw v rawout rest tr, length inp <= n ->
  lit_body inp dec raw = Ok (v, rawout) tr rest -> exists c, rawout = rev raw ++ c /\ inp = c ++ rest.
Proof.
  induction n as [|n IHn]; intros inp dec raw v rawout rest tr Hn.
  { destruct inp; [simpl; discriminate|simpl in Hn; lia]. }
  assert (IH : forall inp2 dec2 raw2 v2 ro2 rest2 tr2, length inp2 < length inp ->
            lit_body inp2 dec2 raw2 = Ok (v2, ro2) tr2 rest2 -> exists c, ro2 = rev raw2 ++ c /\ inp2 = c ++ rest2)
    by (intros; eapply IHn; [lia|eassumption]).
  clear IHn. destruct inp as [|r0 inp']; simpl; [discriminate|].
  destruct (N.eqb (fst r0) 34).
  { intros [= _ <- _ <-]. exists [r0]. simpl. auto. }
  destruct (N.eqb (fst r0) 92).
  - destruct inp' as [|r1 rest1]; [discriminate|].
    destruct (N.eqb (fst r1) 117).
    + destruct rest1 as [|a [|b [|c [|d rest2]]]]; try (destruct (uchar4_dec _); discriminate).
      destruct (hexv (fst a)), (hexv (fst b)), (hexv (fst c)), (hexv (fst d)); try discriminate.
      intros H. apply IH in H; [|simpl; lia]. destruct H as (c0 & -> & ->).
      exists (r0 :: r1 :: a :: b :: c :: d :: c0). simpl. rewrite <- !app_assoc. simpl. auto.
    + destruct (N.eqb (fst r1) 85).
      * destruct rest1 as [|a [|b [|c [|d [|e [|f [|g [|h rest2]]]]]]]]; try (destruct (uchar8_dec _); discriminate).
        destruct (uchar8_dec [a; b; c; d; e; f; g; h]) as [[v0 ?] ? ?| | |]; try discriminate.
        intros H. apply IH in H; [|simpl; lia]. destruct H as (c0 & -> & ->).
        exists (r0 :: r1 :: a :: b :: c :: d :: e :: f :: g :: h :: c0). simpl. rewrite <- !app_assoc. simpl. auto.
      * repeat match goal with |- context [if N.eqb (fst r1) ?c then _ else _] => destruct (N.eqb (fst r1) c) end;
          try discriminate; intros H; (apply IH in H; [|simpl; lia]); destruct H as (c0 & -> & ->);
          exists (r0 :: r1 :: c0); simpl; rewrite <- !app_assoc; simpl; auto.
  - intros H. apply IH in H; [|simpl; lia]. destruct H as (c0 & -> & ->).
    exists (r0 :: c0). simpl. rewrite <- app_assoc. auto.
Qed.

(* for an open_* scanner started after its first runes [pre]: parts = pre ++ consumed *)
Lemma open_iri_flat lt inp v ps rest : open_iri lt inp = POk v ps rest -> lt :: inp = flat_parts ps ++ rest.
Proof.
  unfold open_iri. destruct (iri_body inp [] [lt]) as [[dec raw] tr r| | |] eqn:E; try discriminate.
  destruct (is_absolute _); [|discriminate]. intros [= _ <- <-].
  apply (iri_body_raw_n (length inp)) in E; [|lia]. destruct E as (c & -> & ->).
  unfold flat_parts. simpl. now rewrite app_nil_r.
Qed.

Lemma acc_scanner_flat (f : list drune -> list drune -> res (list drune)) :
  (forall inp acc v tr rest, f inp acc = Ok v tr rest -> exists c, v = rev acc ++ c /\ inp = c ++ rest) -> True.
Proof. trivial. Qed.

Lemma lang_secondary_raw inp : forall acc v tr rest,
  lang_secondary inp acc = Ok v tr rest -> exists c, v = rev acc ++ c /\ inp = c ++ rest.
Proof.
  induction inp as [|r0 inp IH]; intros acc v tr rest; simpl; [discriminate|].
  destruct (is_alnum (fst r0)).
  { intros H. apply IH in H as (c & -> & ->). exists (r0 :: c). simpl. rewrite <- app_assoc. auto. }
  destruct (N.eqb (fst r0) 45).
  - destruct acc as [|l acc']; [discriminate|]. destruct (N.eqb (fst l) 45); [discriminate|].
    intros H. apply IH in H as (c & -> & ->). exists (r0 :: c). simpl. rewrite <- !app_assoc. auto.
  - intros [= <- _ <-]. exists []. now rewrite app_nil_r.
Qed.

Lemma lang_primary_raw inp : forall acc v tr rest,
  lang_primary inp acc = Ok v tr rest -> exists c, v = rev acc ++ c /\ inp = c ++ rest.
Proof.
  induction inp as [|r0 inp IH]; intros acc v tr rest; simpl; [discriminate|].
  destruct (is_alpha (fst r0)).
  { intros H. apply IH in H as (c & -> & ->). exists (r0 :: c). simpl. rewrite <- app_assoc. auto. }
  destruct (N.eqb (fst r0) 45).
  - destruct acc as [|l acc']; [discriminate|].
    intros H. apply lang_secondary_raw in H as (c & -> & ->). exists (r0 :: c). simpl. rewrite <- !app_assoc. auto.
  - intros [= <- _ <-]. exists []. now rewrite app_nil_r.
Qed.

Lemma open_langtag_flat a inp v ps rest : open_langtag a inp = POk v ps rest -> a :: inp = flat_parts ps ++ rest.
Proof.
  unfold open_langtag. destruct (lang_primary inp []) as [tag tr r| | |] eqn:E; try discriminate.
  destruct tag as [|x tag']; [discriminate|]. destruct (last_is_dash _); [discriminate|]. intros [= _ <- <-].
  apply lang_primary_raw in E as (c & -> & ->). unfold flat_parts. simpl. now rewrite app_nil_r.
Qed.

Lemma open_literal_flat qt inp t v ps rest : open_literal qt inp t = POk v ps rest -> qt :: inp = flat_parts ps ++ rest.
Proof.
  unfold open_literal. destruct (lit_body inp [] [qt]) as [[dec raw] tr r| | |] eqn:E; try discriminate.
  apply (lit_body_raw_n (length inp)) in E; [|lia]. destruct E as (c & -> & ->).
  destruct r as [|r0 rest1].
  - destruct t; [|discriminate]. intros [= _ <- <-]. unfold flat_parts. simpl. now rewrite !app_nil_r.
  - destruct (N.eqb (fst r0) 64).
    + destruct (open_langtag r0 rest1) as [tag ps' rest2| |] eqn:E2; try discriminate.
      apply open_langtag_flat in E2. intros [= _ <- <-]. unfold flat_parts in *. simpl. rewrite <- app_assoc. simpl. now rewrite E2.
    + destruct (N.eqb (fst r0) 94).
      * destruct rest1 as [|r1 rest2]; [discriminate|]. destruct (negb (N.eqb (fst r1) 94)); [discriminate|].
        destruct rest2 as [|r2 rest3]; [discriminate|]. destruct (negb (N.eqb (fst r2) 60)); [discriminate|].
        destruct (open_iri r2 rest3) as [dt ps' rest4| |] eqn:E2; try discriminate.
        destruct (beq dt rdf_langString || beq dt rdf_dirLangString); [discriminate|].
        apply open_iri_flat in E2. intros [= _ <- <-]. unfold flat_parts in *. simpl. rewrite <- !app_assoc. simpl. now rewrite E2.
      * intros [= _ <- <-]. unfold flat_parts. simpl. now rewrite app_nil_r.
Qed.

Lemma bnode_rest_raw inp t : forall acc v tr rest,
  bnode_rest inp acc t = Ok v tr rest -> exists c, v = rev acc ++ c /\ inp = c ++ rest.
Proof.
  induction inp as [|r0 inp IH]; intros acc v tr rest; simpl; [destruct t; [intros [= <- _ <-]; exists []; now rewrite app_nil_r|discriminate]|].
  destruct (pn_chars_nt (fst r0) || N.eqb (fst r0) 46).
  { intros H. apply IH in H as (c & -> & ->). exists (r0 :: c). simpl. rewrite <- app_assoc. auto. }
  intros [= <- _ <-]. exists []. now rewrite app_nil_r.
Qed.

Lemma open_bnode_flat us colon inp t v ps rest : open_bnode us colon inp t = POk v ps rest -> us :: colon :: inp = flat_parts ps ++ rest.
Proof.
  unfold open_bnode. destruct inp as [|r0 inp']; [discriminate|].
  destruct (pn_chars_u_nt (fst r0) || is_digit (fst r0)); [|discriminate].
  destruct (bnode_rest inp' [r0] t) as [lab tr rest1| | |] eqn:E; try discriminate.
  apply bnode_rest_raw in E as (c & -> & ->). change (rev [r0] ++ c) with (r0 :: c).
  destruct (rev (r0 :: c)) as [|lastr before] eqn:Er; [discriminate|].
  assert (Hrc : r0 :: c = rev before ++ [lastr]).
  { rewrite <- (rev_involutive (r0 :: c)), Er. reflexivity. }
  destruct before as [|b0 before'].
  - intros [= _ <- <-]. unfold flat_parts. simpl. now rewrite app_nil_r.
  - destruct (N.eqb (fst lastr) 46).
    + destruct (rev (rev (b0 :: before'))) as [|l2 ?]; [discriminate|]. destruct (pn_chars_nt (fst l2)); [|discriminate].
      intros [= _ <- <-]. unfold flat_parts. simpl. rewrite app_nil_r.
      change (r0 :: c ++ rest1) with ((r0 :: c) ++ rest1). rewrite Hrc. rewrite <- app_assoc. reflexivity.
    + destruct (rev (r0 :: c)) as [|l2 ?]; [discriminate|]. destruct (pn_chars_nt (fst l2)); [|discriminate].
      intros [= _ <- <-]. unfold flat_parts. simpl. now rewrite app_nil_r.
Qed.

Lemma drain_line_raw inp : forall acc cm rest, drain_line inp acc = (cm, rest) ->
  exists c, cm = rev acc ++ c /\ inp = c ++ (match rest with Some r => r | None => [] end).
Proof.
  induction inp as [|r0 inp IH]; intros acc cm rest; simpl.
  - intros [= <- <-]. exists []. now rewrite app_nil_r.
  - destruct (N.eqb (fst r0) 10 || N.eqb (fst r0) 13).
    + intros [= <- <-]. exists [r0]. simpl. auto.
    + intros H. apply IH in H as (c & -> & E). exists (r0 :: c). simpl. rewrite <- app_assoc. simpl. now rewrite <- E.
Qed.

(* capture: everything consumed is committed, in order *)
Lemma capture_flat fuel : forall k inp t tr v tr' rest,
  capture fuel k inp t tr = Ok v tr' rest -> exists c, flat_tr tr' = flat_tr tr ++ c /\ inp = c ++ rest.
Proof.
  induction fuel as [|f IH]; intros k inp t tr v tr' rest; [discriminate|].
  destruct inp as [|r0 rest0]; simpl; [discriminate|].
  destruct (N.eqb (fst r0) 60).
  { destruct (open_iri r0 rest0) as [i ps rest'| |] eqn:E; try discriminate. intros [= _ <- <-].
    apply open_iri_flat in E. exists (flat_parts ps). rewrite flat_tr_app. lsolve. }
  destruct (N.eqb (fst r0) 95 && negb _).
  { destruct rest0 as [|r1 rest1]; [discriminate|]. destruct (N.eqb (fst r1) 58); [|discriminate].
    destruct (open_bnode r0 r1 rest1 t) as [b ps rest'| |] eqn:E; try discriminate. intros [= _ <- <-].
    apply open_bnode_flat in E. exists (flat_parts ps). rewrite flat_tr_app. lsolve. }
  destruct (N.eqb (fst r0) 34 && _).
  { destruct (open_literal r0 rest0 t) as [l ps rest'| |] eqn:E; try discriminate. intros [= _ <- <-].
    apply open_literal_flat in E. exists (flat_parts ps). rewrite flat_tr_app. lsolve. }
  destruct (N.eqb (fst r0) 35).
  { destruct (drain_line rest0 [r0]) as [cm [rest'|]] eqn:E; [|discriminate].
    apply drain_line_raw in E as (c & -> & ->). intros H. apply IH in H as (c2 & -> & ->).
    exists (r0 :: c ++ c2). rewrite !flat_tr_app. lsolve. }
  destruct (is_space (fst r0)); [|discriminate].
  intros H. apply IH in H as (c2 & -> & ->). exists (r0 :: c2). rewrite !flat_tr_app. lsolve.
Qed.

Lemma after_object_flat fuel : forall nq hg inp t tr v tr' rest,
  after_object fuel nq hg inp t tr = Ok v tr' rest -> exists c, flat_tr tr' = flat_tr tr ++ c /\ inp = c ++ rest.
Proof.
  induction fuel as [|f IH]; intros nq hg inp t tr v tr' rest; [discriminate|].
  destruct inp as [|r0 rest0]; cbn [after_object]; [discriminate|].
  destruct (N.eqb (fst r0) 46).
  { intros [= _ <- <-]. exists [r0]. rewrite flat_tr_app. lsolve. }
  destruct (N.eqb (fst r0) 35).
  { destruct (drain_line rest0 [r0]) as [cm [rest'|]] eqn:E; [|discriminate].
    apply drain_line_raw in E as (c & -> & ->). intros H. apply IH in H as (c2 & -> & ->).
    exists (r0 :: c ++ c2). rewrite !flat_tr_app. lsolve. }
  destruct (is_space (fst r0)).
  { intros H. apply IH in H as (c2 & -> & ->). exists (r0 :: c2). rewrite !flat_tr_app. lsolve. }
  destruct (nq && negb hg); [|discriminate].
  destruct (capture (S (length (r0 :: rest0))) KGraph (r0 :: rest0) t []) as [g tr1 rest1| | |] eqn:E; try discriminate.
  apply capture_flat in E as (c1 & E1 & E2). simpl in E1.
  destruct (after_object f nq true rest1 t (tr ++ tr1)) as [o tr2 rest2| | |] eqn:E3; try discriminate.
  apply IH in E3 as (c2 & E4 & ->). intros [= _ <- <-].
  exists (c1 ++ c2). rewrite E4, flat_tr_app, E1, <- app_assoc. split; [reflexivity|]. rewrite E2, <- app_assoc. reflexivity.
Qed.

Lemma statement_flat nq inp t tr q tr' rest :
  statement nq inp t tr = Ok q tr' rest -> exists c, flat_tr tr' = flat_tr tr ++ c /\ inp = c ++ rest.
Proof.
  unfold statement.
  destruct (capture (S (length inp)) KSubject inp t tr) as [s tr1 r1| | |] eqn:E1; try discriminate.
  destruct (capture (S (length inp)) KPredicate r1 t tr1) as [p tr2 r2| | |] eqn:E2; try discriminate.
  destruct (capture (S (length inp)) KObject r2 t tr2) as [o tr3 r3| | |] eqn:E3; try discriminate.
  destruct (after_object (S (length inp)) nq false r3 t tr3) as [g tr4 r4| | |] eqn:E4; try discriminate.
  intros [= _ <- <-].
  apply capture_flat in E1 as (c1 & F1 & ->). apply capture_flat in E2 as (c2 & F2 & ->).
  apply capture_flat in E3 as (c3 & F3 & ->). apply after_object_flat in E4 as (c4 & F4 & ->).
  exists (c1 ++ c2 ++ c3 ++ c4). rewrite F4, F3, F2, F1, <- !app_assoc. auto.
Qed.

Lemma after_statement_flat fuel : forall inp t tr tr' rest,
  after_statement fuel inp t tr = GStart tr' rest -> exists c, flat_tr tr' = flat_tr tr ++ c /\ inp = c ++ rest.
Proof.
  induction fuel as [|f IH]; intros inp t tr tr' rest; [discriminate|].
  destruct inp as [|r0 rest0]; simpl; [destruct t; discriminate|].
  destruct (N.eqb (fst r0) 35).
  { destruct (drain_line rest0 [r0]) as [cm [rest'|]] eqn:E; [|destruct t; discriminate].
    apply drain_line_raw in E as (c & -> & ->). intros [= <- <-].
    exists (r0 :: c). rewrite flat_tr_app. lsolve. }
  destruct (N.eqb (fst r0) 13 || N.eqb (fst r0) 10).
  { intros [= <- <-]. exists [r0]. rewrite flat_tr_app. lsolve. }
  destruct (is_space (fst r0)); [|discriminate].
  intros H. apply IH in H as (c2 & -> & ->). exists (r0 :: c2). rewrite !flat_tr_app. lsolve.
Qed.

Lemma before_statement_flat fuel : forall inp t tr tr' rest,
  before_statement fuel inp t tr = GStart tr' rest -> exists c, flat_tr tr' = flat_tr tr ++ c /\ inp = c ++ rest.
Proof.
  induction fuel as [|f IH]; intros inp t tr tr' rest; [discriminate|].
  destruct inp as [|r0 rest0]; simpl; [destruct t; discriminate|].
  destruct (N.eqb (fst r0) 35).
  { destruct (drain_line rest0 [r0]) as [cm [rest'|]] eqn:E; [|destruct t; discriminate].
    apply drain_line_raw in E as (c & -> & ->). intros H. apply IH in H as (c2 & -> & ->).
    exists (r0 :: c ++ c2). rewrite !flat_tr_app. lsolve. }
  destruct (is_space (fst r0)).
  { intros H. apply IH in H as (c2 & -> & ->). exists (r0 :: c2). rewrite !flat_tr_app. lsolve. }
  intros [= <- <-]. exists []. now rewrite app_nil_r.
Qed.

(* all runes committed while reading the statements of a document, in order, form a prefix of the input *)
Definition committed (l : list stmt) : list drune := flat_map (fun s => flat_tr (st_trace s)) l.

Lemma decode_loop_committed fuel : forall nq first inp t,
  exists rest, inp = committed (fst (decode_loop fuel nq first inp t)) ++ rest.
Proof.
  induction fuel as [|f IH]; intros nq first inp t; [exists inp; reflexivity|]. cbn [decode_loop].
  destruct (if first then GStart [] inp else after_statement (S (length inp)) inp t []) as [tr1 r1| | | |] eqn:E1;
    try (exists inp; reflexivity).
  assert (H1 : exists c, flat_tr tr1 = c /\ inp = c ++ r1).
  { destruct first.
    - injection E1 as <- <-. exists []. auto.
    - apply after_statement_flat in E1 as (c & Hc & ->). exists c. auto. }
  destruct H1 as (c1 & F1 & ->).
  destruct (before_statement (S (length r1)) r1 t tr1) as [tr2 r2| | | |] eqn:E2; try (exists (c1 ++ r1); reflexivity).
  apply before_statement_flat in E2 as (c2 & F2 & ->).
  destruct (statement nq r2 t tr2) as [q tr3 r3| | |] eqn:E3; try (exists (c1 ++ c2 ++ r2); reflexivity).
  apply statement_flat in E3 as (c3 & F3 & ->).
  destruct (IH nq false r3 t) as (rest & Hr). destruct (decode_loop f nq false r3 t) as [l v]. simpl in *.
  exists rest. rewrite F3, F2, F1. rewrite <- !app_assoc. now rewrite <- Hr.
Qed.

Theorem decode_committed nq inp t : exists rest, inp = committed (fst (decode nq inp t)) ++ rest.
Proof. apply decode_loop_committed. Qed.

(* ---------- reader failures are never reported as a clean end ---------- *)
Lemma after_statement_fail fuel : forall inp tr tr', after_statement fuel inp TFail tr <> GEnd tr'.
Proof.
  induction fuel as [|f IH]; intros inp tr tr'; [discriminate|].
  destruct inp as [|r0 rest0]; simpl; [discriminate|].
  destruct (N.eqb (fst r0) 35); [destruct (drain_line rest0 [r0]) as [cm [rest'|]]; discriminate|].
  destruct (N.eqb (fst r0) 13 || N.eqb (fst r0) 10); [discriminate|].
  destruct (is_space (fst r0)); [apply IH|discriminate].
Qed.

Lemma before_statement_fail fuel : forall inp tr tr', before_statement fuel inp TFail tr <> GEnd tr'.
Proof.
  induction fuel as [|f IH]; intros inp tr tr'; [discriminate|].
  destruct inp as [|r0 rest0]; simpl; [discriminate|].
  destruct (N.eqb (fst r0) 35); [destruct (drain_line rest0 [r0]) as [cm [rest'|]]; [apply IH|discriminate]|].
  destruct (is_space (fst r0)); [apply IH|discriminate].
Qed.

Lemma decode_loop_fail fuel : forall nq first inp, snd (decode_loop fuel nq first inp TFail) <> VOk.
Proof.
  induction fuel as [|f IH]; intros nq first inp; [discriminate|]. cbn [decode_loop].
  destruct (if first then GStart [] inp else after_statement (S (length inp)) inp TFail []) as [tr1 r1|tr1| | |] eqn:E1; try discriminate.
  - destruct (before_statement (S (length r1)) r1 TFail tr1) as [tr2 r2|tr2| | |] eqn:E2; try discriminate.
    + destruct (statement nq r2 TFail tr2) as [q tr3 r3| | |]; try discriminate.
      specialize (IH nq false r3). destruct (decode_loop f nq false r3 TFail) as [l v]. exact IH.
    + exfalso. eapply before_statement_fail; eauto.
  - destruct first; [discriminate|]. exfalso. eapply after_statement_fail; eauto.
Qed.

Theorem decode_io_error_reported nq inp : snd (decode nq inp TFail) <> VOk.
Proof. apply decode_loop_fail. Qed.

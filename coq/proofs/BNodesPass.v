(* BNodesPass.v — the label pass-through provider of a string factory keeps the invariants and is injective. *)
From RK Require Import Base BNodes BNodesProofs.

Lemma xstep_world w x : fst (xstep w x) = w \/ exists o, fst (xstep w x) = fst (step w o).
Proof.
  destruct x as [o|sf p k]; unfold xstep.
  - right. exists o. destruct (step w o). reflexivity.
  - destruct (option_map (own_label sf) (nth_error (w_nodes w) k)) as [[l|]|]; [now left| |];
      right; exists (OGetU p k); destruct (step w (OGetU p k)); reflexivity.
Qed.

Lemma xstep_invariants w x : WF w -> PInv w -> MInv w ->
  WF (fst (xstep w x)) /\ PInv (fst (xstep w x)) /\ MInv (fst (xstep w x)).
Proof.
  intros H1 H2 H3. destruct (xstep_world w x) as [->|(o & ->)]; [tauto|].
  split; [now apply step_WF|]. split; [now apply step_PInv|now apply step_MInv].
Qed.

Lemma xrun_from_invariants xs : forall w, WF w -> PInv w -> MInv w ->
  WF (fst (xrun_from w xs)) /\ PInv (fst (xrun_from w xs)) /\ MInv (fst (xrun_from w xs)).
Proof.
  induction xs as [|x xs IH]; intros w H1 H2 H3; simpl; [tauto|].
  destruct (xstep_invariants w x H1 H2 H3) as (G1 & G2 & G3).
  destruct (xstep w x) as [w' r]. simpl in *. specialize (IH w' G1 G2 G3).
  destruct (xrun_from w' xs) as [w'' rs]. exact IH.
Qed.

Theorem xrun_invariants xs : WF (fst (xrun xs)) /\ PInv (fst (xrun xs)) /\ MInv (fst (xrun xs)).
Proof.
  apply xrun_from_invariants; [apply WF_world0|apply PInv_world0|].
  unfold MInv. simpl. constructor.
Qed.

(* the label the wrapper gives a node in world w: its own factory's label, or what the fallback has recorded *)
Definition slabel_of (w : world) (sf p : nat) (b : bid) : option (bytes + nat) :=
  match own_label sf b with
  | Some l => Some (inl l)
  | None => option_map inr (ulabel_of w p b)
  end.

(* a step of the wrapper answers with that label *)
Theorem pass_through_recorded w sf p k w' l :
  xstep w (XGetS sf p k) = (w', YStr l) ->
  w' = w /\ exists b, nth_error (w_nodes w) k = Some b /\ slabel_of w sf p b = Some (inl l).
Proof.
  unfold xstep. destruct (nth_error (w_nodes w) k) as [b|] eqn:E; cbn [option_map].
  - destruct (own_label sf b) as [l0|] eqn:El.
    + intros [= <- <-]. split; [reflexivity|]. exists b. split; [reflexivity|]. unfold slabel_of. now rewrite El.
    + destruct (step w (OGetU p k)); discriminate.
  - destruct (step w (OGetU p k)); discriminate.
Qed.

(* different nodes never share a label: labels of the own factory against each other (string factory contract),
   against the fallback's (another kind of value; for real UUIDs this is the premise that a label of the document is
   not a UUID the provider draws), and the fallback's among themselves *)
Theorem pass_through_injective w sf p b b' v :
  PInv w -> slabel_of w sf p b = Some v -> slabel_of w sf p b' = Some v -> b = b'.
Proof.
  intros HP. unfold slabel_of.
  destruct (own_label sf b) as [l|] eqn:E1; destruct (own_label sf b') as [l'|] eqn:E2.
  - intros [= <-] [= E]. subst l'.
    destruct b as [| |f m]; try discriminate. destruct b' as [| |f' m']; try discriminate.
    simpl in E1, E2. destruct (Nat.eqb f sf) eqn:F1; [|discriminate]. destruct (Nat.eqb f' sf) eqn:F2; [|discriminate].
    apply Nat.eqb_eq in F1, F2. congruence.
  - intros [= <-]. destruct (ulabel_of w p b'); discriminate.
  - destruct (ulabel_of w p b); [|discriminate]. intros [= <-]. discriminate.
  - destruct (ulabel_of w p b) as [k|] eqn:U1; [|discriminate]. destruct (ulabel_of w p b') as [k'|] eqn:U2; [|discriminate].
    intros [= <-] [= E]. subst k'. eapply ulabel_injective; eassumption.
Qed.

From RK Require Import Base BaseFacts Iri3986 Iri3986Proofs RdfXml.

Definition iri_ok (i : bytes) : bool := has_scheme i && no_dot_segments (c_path (parse5 i)).

Lemma resolve_ok base i : iri_ok i = true -> RdfXml.resolve base i = i.
Proof.
  unfold iri_ok. intros H. apply andb_prop in H as [Hs Hd]. unfold RdfXml.resolve.
  destruct base; [reflexivity|]. apply resolve_abs_nodots; assumption.
Qed.

(* ---------- the flat writer: one rdf:Description with one property element per triple ---------- *)
Definition subj_attrs (s : rterm) : list (bytes * bytes) :=
  match s with RI i => [(rdf "about", i)] | RB _ l => [(rdf "nodeID", l)] | RL _ _ _ => [] end.

Definition prop_of (p : bytes) (o : rterm) : xnode :=
  match o with
  | RI i => XE p [(rdf "resource", i)] []
  | RB _ l => XE p [(rdf "nodeID", l)] []
  | RL lex dt [] => if beq dt xsd_string_dt then XE p [] [XT lex] else XE p [(rdf "datatype", dt)] [XT lex]
  | RL lex _ lang => XE p [(XMLNS ++ s2b "lang", lang)] [XT lex]
  end.

Definition triple_elt (t : rtriple) : xnode :=
  let '(s, p, o) := t in XE (rdf "Description") (subj_attrs s) [prop_of p o].

Definition flat_rdfxml (ts : list rtriple) : xnode := XE (rdf "RDF") [] (map triple_elt ts).

Definition node_ok (t : rterm) : bool := match t with RI i => iri_ok i | RB false _ => true | _ => false end.
Definition obj_ok (o : rterm) : bool :=
  match o with
  | RL lex dt [] => beq dt xsd_string_dt || (match lex with [] => false | _ => true end)
  | RL _ dt (_ :: _) => beq dt lang_string_dt
  | t => node_ok t
  end.
Definition triple_ok (t : rtriple) : bool :=
  let '(s, p, o) := t in node_ok s && negb (beq p (rdf "li")) && obj_ok o.

Section RT.
Variable base : bytes.
Let c0 := Ctx base [].

Lemma prop_eval f s p o li k : negb (beq p (rdf "li")) = true -> obj_ok o = true ->
  prop_elt (S f) c0 s (prop_of p o) li k = Some ([(s, p, o)], li, k).
Proof.
  intros Hp Ho. apply negb_true_iff in Hp.
  destruct o as [i|g l|lex dt lang]; cbn [obj_ok node_ok prop_of] in *.
  - cbn [prop_elt]. rewrite Hp.
    change (attr (rdf "parseType") [(rdf "resource", i)]) with (@None bytes).
    cbn [elems filter text_of flat_map].
    change (has_prop_attrs [(rdf "resource", i)]) with false.
    change (attr (rdf "datatype") [(rdf "resource", i)]) with (@None bytes).
    change (attr (rdf "resource") [(rdf "resource", i)]) with (Some i).
    change (attr (rdf "nodeID") [(rdf "resource", i)]) with (@None bytes).
    cbn [orb]. unfold reify. change (attr (rdf "ID") [(rdf "resource", i)]) with (@None bytes).
    change (prop_attr_triples (scope c0 [(rdf "resource", i)]) (RI (RdfXml.resolve (c_base (scope c0 [(rdf "resource", i)])) i)) [(rdf "resource", i)]) with (@nil rtriple).
    rewrite resolve_ok by exact Ho. reflexivity.
  - destruct g; [discriminate|].
    cbn [prop_elt]. rewrite Hp.
    change (attr (rdf "parseType") [(rdf "nodeID", l)]) with (@None bytes).
    cbn [elems filter text_of flat_map].
    change (has_prop_attrs [(rdf "nodeID", l)]) with false.
    change (attr (rdf "datatype") [(rdf "nodeID", l)]) with (@None bytes).
    change (attr (rdf "resource") [(rdf "nodeID", l)]) with (@None bytes).
    change (attr (rdf "nodeID") [(rdf "nodeID", l)]) with (Some l).
    cbn [orb]. unfold reify. change (attr (rdf "ID") [(rdf "nodeID", l)]) with (@None bytes).
    reflexivity.
  - destruct lang as [|lc lang].
    + destruct (beq dt xsd_string_dt) eqn:Ed.
      * apply beq_true_iff in Ed. subst dt.
        cbn [prop_elt]. rewrite Hp. cbn [attr elems filter text_of flat_map app].
        rewrite app_nil_r.
        destruct lex as [|x lex]; reflexivity.
      * cbn [orb] in Ho. destruct lex as [|x lex]; [discriminate|].
        cbn [prop_elt]. rewrite Hp.
        change (attr (rdf "parseType") [(rdf "datatype", dt)]) with (@None bytes).
        cbn [elems filter text_of flat_map app].
        change (attr (rdf "datatype") [(rdf "datatype", dt)]) with (Some dt).
        unfold reify. change (attr (rdf "ID") [(rdf "datatype", dt)]) with (@None bytes).
        rewrite app_nil_r. reflexivity.
    + apply beq_true_iff in Ho. subst dt.
      cbn [prop_elt]. rewrite Hp.
      change (attr (rdf "parseType") [(XMLNS ++ s2b "lang", lc :: lang)]) with (@None bytes).
      cbn [elems filter text_of flat_map app]. rewrite app_nil_r.
      change (has_prop_attrs [(XMLNS ++ s2b "lang", lc :: lang)]) with false.
      change (attr (rdf "datatype") [(XMLNS ++ s2b "lang", lc :: lang)]) with (@None bytes).
      change (attr (rdf "resource") [(XMLNS ++ s2b "lang", lc :: lang)]) with (@None bytes).
      change (attr (rdf "nodeID") [(XMLNS ++ s2b "lang", lc :: lang)]) with (@None bytes).
      unfold reify. change (attr (rdf "ID") [(XMLNS ++ s2b "lang", lc :: lang)]) with (@None bytes).
      change (c_lang (scope c0 [(XMLNS ++ s2b "lang", lc :: lang)])) with (lc :: lang) || idtac.
      destruct lex as [|x lex]; reflexivity.
Qed.

Lemma node_eval f t k : triple_ok t = true ->
  exists s, node_elt (S (S f)) c0 (triple_elt t) k = Some (s, [t], k).
Proof.
  destruct t as [[s p] o]. cbn [triple_ok triple_elt]. intros H.
  apply andb_prop in H as [H Ho]. apply andb_prop in H as [Hs Hp].
  exists s.
  destruct s as [i|g l|]; cbn [node_ok subj_attrs] in *; try discriminate.
  - cbn [node_elt].
    change (attr (rdf "ID") [(rdf "about", i)]) with (@None bytes).
    change (attr (rdf "nodeID") [(rdf "about", i)]) with (@None bytes).
    change (attr (rdf "about") [(rdf "about", i)]) with (Some i).
    change (beq (rdf "Description") (rdf "Description")) with true.
    change (scope c0 [(rdf "about", i)]) with c0.
    cbv iota beta.
    rewrite resolve_ok by exact Hs.
    replace (prop_attr_triples c0 (RI i) [(rdf "about", i)]) with (@nil rtriple) by reflexivity.
    cbn [fold_props]. destruct (prop_of p o) eqn:E.
    + rewrite <- E. rewrite (prop_eval f (RI i) p o 1 k Hp Ho). reflexivity.
    + destruct o as [? | ? ? | ? ? [|]]; cbn [prop_of] in E; try discriminate.
      destruct (beq dt xsd_string_dt); discriminate.
  - destruct g; [discriminate|].
    cbn [node_elt].
    change (attr (rdf "ID") [(rdf "nodeID", l)]) with (@None bytes).
    change (attr (rdf "nodeID") [(rdf "nodeID", l)]) with (Some l).
    change (beq (rdf "Description") (rdf "Description")) with true.
    change (scope c0 [(rdf "nodeID", l)]) with c0.
    cbv iota beta.
    replace (prop_attr_triples c0 (RB false l) [(rdf "nodeID", l)]) with (@nil rtriple) by reflexivity.
    cbn [fold_props]. destruct (prop_of p o) eqn:E.
    + rewrite <- E. rewrite (prop_eval f (RB false l) p o 1 k Hp Ho). reflexivity.
    + destruct o as [? | ? ? | ? ? [|]]; cbn [prop_of] in E; try discriminate.
      destruct (beq dt xsd_string_dt); discriminate.
Qed.

Lemma fold_triples f ts : forallb triple_ok ts = true -> forall subjects acc k,
  exists subjects', fold_nodes (node_elt (S (S f)) c0) (map triple_elt ts) k subjects acc = Some (subjects', acc ++ ts, k).
Proof.
  induction ts as [|t ts IH]; intros H subjects acc k.
  - exists subjects. cbn. rewrite app_nil_r. reflexivity.
  - cbn [forallb] in H. apply andb_prop in H as [Ht H].
    destruct (node_eval f t k Ht) as (s & E).
    cbn [map fold_nodes].
    assert (Hx : exists n a c, triple_elt t = XE n a c) by (destruct t as [[? ?] ?]; cbn; eauto).
    destruct Hx as (n & a & c & Ex). rewrite Ex in *. rewrite E.
    destruct (IH H (subjects ++ [s]) (acc ++ [t]) k) as (ss & E2).
    exists ss. rewrite E2. rewrite <- app_assoc. reflexivity.
Qed.
End RT.

(* every graph of well-formed triples is denoted by its flat RDF/XML document, under any base *)
Theorem flat_rdfxml_roundtrip base ts : forallb triple_ok ts = true -> rdfxml_doc base (flat_rdfxml ts) = Some ts.
Proof.
  intros H. unfold rdfxml_doc, flat_rdfxml.
  change (beq (rdf "RDF") (rdf "RDF")) with true. cbv iota.
  change (scope (Ctx base []) []) with (Ctx base []).
  destruct ts as [|t ts]; [reflexivity|].
  assert (Hf : exists f, S (xsize (XE (rdf "RDF") [] (map triple_elt (t :: ts)))) = S (S f)).
  { cbn [xsize map fold_right]. eexists. reflexivity. }
  destruct Hf as (f & Ef). rewrite Ef.
  destruct (fold_triples base f (t :: ts) H [] [] 0) as (ss & E). rewrite E. reflexivity.
Qed.

(* XsdProofs.v — strconv.ParseUint / ParseInt as modelled (with the uint64 overflow guards) accept exactly the
   XML Schema integer lexical forms whose value fits the bit size, and return that value; the canonical form of
   every value in range is accepted again and maps to the same value. *)
From RK Require Import Base BaseFacts Xsd.
From Coq Require Import ZifyN ZifyNat ZifyBool.
Ltac Zify.zify_post_hook ::= Z.div_mod_to_equations.

Lemma digits_value_mono : forall t a, (a <= digits_value t a)%N.
Proof. induction t as [|c t IH]; intros a; cbn [digits_value]; [lia|]. specialize (IH (a * 10 + (c - 48))%N). lia. Qed.

Lemma is_dig_range c : is_dig c = true -> (48 <= c <= 57)%N.
Proof. unfold is_dig. lia. Qed.

(* completeness: digits whose value fits are accepted *)
Lemma loop_complete maxval : (maxval < two64)%N -> forall ds n,
  forallb is_dig ds = true -> (digits_value ds n <= maxval)%N -> parse_uint_loop maxval ds n = inl (digits_value ds n).
Proof.
  intros Hm. induction ds as [|c t IH]; intros n Hd Hv; [reflexivity|].
  cbn [forallb] in Hd. apply andb_true_iff in Hd. destruct Hd as [Hc Ht].
  cbn [parse_uint_loop digits_value] in *. rewrite Hc. cbn [negb].
  pose proof (is_dig_range c Hc) as R.
  pose proof (digits_value_mono t (n * 10 + (c - 48))%N) as M.
  unfold two64, cutoff64 in *.
  assert ((1844674407370955162 <=? n)%N = false) as -> by lia.
  assert (((n * 10 + (c - 48)) mod 18446744073709551616)%N = (n * 10 + (c - 48))%N) as -> by (apply N.mod_small; lia).
  assert (((n * 10 + (c - 48) <? n * 10) || (maxval <? n * 10 + (c - 48)))%N = false) as -> by lia.
  apply IH; assumption.
Qed.

(* soundness: whatever is accepted is a digit string with that value, within the bound *)
Lemma loop_sound maxval : forall ds n r,
  parse_uint_loop maxval ds n = inl r -> (n <= maxval)%N ->
  forallb is_dig ds = true /\ r = digits_value ds n /\ (r <= maxval)%N.
Proof.
  induction ds as [|c t IH]; intros n r H Hn; cbn [parse_uint_loop] in H.
  - inversion H; subst. repeat split; assumption.
  - destruct (is_dig c) eqn:Hc; [|discriminate]. cbn [negb] in H.
    destruct (cutoff64 <=? n)%N eqn:Hcut; [discriminate|].
    set (m := (n * 10)%N) in *. set (n1 := ((m + (c - 48)) mod two64)%N) in *.
    destruct ((n1 <? m) || (maxval <? n1))%N eqn:Hchk; [discriminate|].
    pose proof (is_dig_range c Hc) as R.
    assert (n1 = m + (c - 48))%N as E.
    { subst n1 m. unfold two64, cutoff64 in *.
      assert ((n * 10 + (c - 48)) < 18446744073709551616 \/ 18446744073709551616 <= (n * 10 + (c - 48)) < 2 * 18446744073709551616)%N as [L|L] by lia.
      - apply N.mod_small; exact L.
      - exfalso. assert (((n * 10 + (c - 48)) mod 18446744073709551616) = (n * 10 + (c - 48)) - 18446744073709551616)%N as X.
        { symmetry. apply N.mod_unique with (q := 1%N); lia. }
        rewrite X in Hchk. lia. }
    apply IH in H; [|lia]. destruct H as (H1 & H2 & H3).
    cbn [forallb digits_value]. rewrite Hc, H1. fold m. rewrite <- E. repeat split; assumption.
Qed.

Theorem parse_uint_spec bits s r : (bits <= 64)%N ->
  (parse_uint bits s = inl r <-> all_digits_b s = true /\ digits_value s 0 = r /\ (r <= 2 ^ bits - 1)%N).
Proof.
  intros Hb. assert (2 ^ bits - 1 < two64)%N as Hm.
  { unfold two64. assert (2 ^ bits <= 2 ^ 64)%N by (apply N.pow_le_mono_r; lia). change (2 ^ 64)%N with 18446744073709551616%N in H. lia. }
  destruct s as [|c t]; [split; [discriminate|intros (H & _); discriminate]|].
  unfold parse_uint, all_digits_b. split.
  - intros H. apply loop_sound in H; [|lia]. destruct H as (H1 & H2 & H3). auto.
  - intros (H1 & H2 & H3). rewrite <- H2. apply loop_complete; [exact Hm|exact H1|rewrite H2; exact H3].
Qed.

Lemma int_lexical_body s : int_lexical s = true ->
  exists c t, s = c :: t /\ all_digits_b (if N.eqb c 43 || N.eqb c 45 then t else s) = true.
Proof. destruct s as [|c t]; [discriminate|]. cbn [int_lexical]. intros H. exists c, t. split; [reflexivity|]. destruct (N.eqb c 43 || N.eqb c 45); exact H. Qed.

Lemma pow_pred_lt bits : (1 <= bits <= 64)%N -> (2 ^ (bits - 1) <= 2 ^ bits - 1)%N.
Proof.
  intros H. replace bits with (N.succ (bits - 1)) at 2 by lia. rewrite N.pow_succ_r by lia.
  assert (0 < 2 ^ (bits - 1))%N by (apply N.neq_0_lt_0; apply N.pow_nonzero; discriminate). lia.
Qed.

Theorem parse_int_spec bits s v : (1 <= bits <= 64)%N ->
  (parse_int bits s = inl v <->
   int_lexical s = true /\ int_value s = v /\ (- Z.of_N (2 ^ (bits - 1)) <= v <= Z.of_N (2 ^ (bits - 1)) - 1)%Z).
Proof.
  intros Hb. pose proof (pow_pred_lt bits Hb) as Hp.
  destruct s as [|c t]; [split; [discriminate|intros (H & _); discriminate]|].
  cbn [parse_int int_lexical int_value].
  set (body := if N.eqb c 43 || N.eqb c 45 then t else c :: t).
  assert (Hval : int_value (c :: t) = if N.eqb c 45 then (- Z.of_N (digits_value body 0))%Z else Z.of_N (digits_value body 0)).
  { cbn [int_value]. subst body. destruct (N.eqb c 45) eqn:E45; [apply N.eqb_eq in E45; subst c; reflexivity|].
    destruct (N.eqb c 43); reflexivity. }
  assert (Hlex : (if N.eqb c 43 || N.eqb c 45 then all_digits_b t else all_digits_b (c :: t)) = all_digits_b body).
  { subst body. destruct (N.eqb c 43 || N.eqb c 45); reflexivity. }
  rewrite Hlex. cbn [int_value] in Hval. rewrite Hval. clear Hval Hlex.
  split.
  - destruct (parse_uint bits body) as [un|e] eqn:P; [|discriminate].
    apply parse_uint_spec in P; [|lia]. destruct P as (P1 & P2 & P3). rewrite P2.
    destruct (N.eqb c 45) eqn:E45; cbn [negb andb].
    + destruct (2 ^ (bits - 1) <? un)%N eqn:C; [discriminate|]. intros H. inversion H; subst. repeat split; [exact P1|lia|lia].
    + destruct (2 ^ (bits - 1) <=? un)%N eqn:C; [discriminate|]. intros H. inversion H; subst. repeat split; [exact P1|lia|lia].
  - intros (H1 & H2 & H3).
    assert (parse_uint bits body = inl (digits_value body 0)) as ->.
    { apply parse_uint_spec; [lia|]. repeat split; [exact H1|]. destruct (N.eqb c 45); lia. }
    destruct (N.eqb c 45) eqn:E45; cbn [negb andb].
    + assert ((2 ^ (bits - 1) <? digits_value body 0)%N = false) as -> by lia. f_equal. exact H2.
    + assert ((2 ^ (bits - 1) <=? digits_value body 0)%N = false) as -> by lia. f_equal. exact H2.
Qed.

(* ---------- the canonical form is accepted again ---------- *)
Lemma pos_size_bound p : (N.pos p < 2 ^ N.of_nat (Pos.size_nat p))%N.
Proof.
  induction p as [p IH|p IH|]; cbn [Pos.size_nat].
  - rewrite Nat2N.inj_succ, N.pow_succ_r by lia. lia.
  - rewrite Nat2N.inj_succ, N.pow_succ_r by lia. lia.
  - cbn. lia.
Qed.

Lemma size_nat_bound n : (n < 2 ^ N.of_nat (N.size_nat n))%N.
Proof. destruct n as [|p]; [cbn; lia|apply pos_size_bound]. Qed.

Definition digits_ok (ds : bytes) (n : N) : Prop :=
  forallb is_dig ds = true /\ ds <> [] /\
  forall a rest, digits_value (ds ++ rest) a = digits_value rest (a * 10 ^ N.of_nat (length ds) + n)%N.

Lemma dec_print_aux_step f n acc : dec_print_aux (S f) n acc =
  if (n <? 10)%N then (48 + n)%N :: acc else dec_print_aux f (n / 10)%N ((48 + n mod 10)%N :: acc).
Proof. reflexivity. Qed.

Lemma dec_print_aux_spec : forall f n acc, (n < 2 ^ N.of_nat (S f))%N ->
  exists ds, dec_print_aux (S f) n acc = ds ++ acc /\ digits_ok ds n.
Proof.
  induction f as [|f IH]; intros n acc Hn.
  - change (2 ^ N.of_nat 1)%N with 2%N in Hn. rewrite dec_print_aux_step. assert (n <? 10 = true)%N as -> by lia.
    exists [(48 + n)%N]. split; [reflexivity|]. repeat split; [cbn [forallb]; unfold is_dig; lia|discriminate|].
    intros a rest. cbn [app digits_value length]. f_equal. change (10 ^ N.of_nat 1)%N with 10%N. lia.
  - rewrite dec_print_aux_step. destruct (n <? 10)%N eqn:E.
    + exists [(48 + n)%N]. split; [reflexivity|]. repeat split; [cbn [forallb]; unfold is_dig; lia|discriminate|].
      intros a rest. cbn [app digits_value length]. f_equal. change (10 ^ N.of_nat 1)%N with 10%N. lia.
    + assert (n / 10 < 2 ^ N.of_nat (S f))%N as Hq.
      { rewrite !Nat2N.inj_succ, N.pow_succ_r in Hn by lia. rewrite Nat2N.inj_succ. lia. }
      destruct (IH (n / 10)%N ((48 + n mod 10)%N :: acc) Hq) as (ds' & E1 & D1 & D2 & D3).
      exists (ds' ++ [(48 + n mod 10)%N]). split; [rewrite E1, <- app_assoc; reflexivity|].
      repeat split.
      * rewrite forallb_app, D1. cbn [forallb andb]. unfold is_dig. lia.
      * destruct ds'; discriminate.
      * intros a rest. rewrite <- app_assoc. rewrite D3. cbn [app digits_value].
        rewrite app_length. cbn [length]. rewrite Nat.add_1_r, Nat2N.inj_succ, N.pow_succ_r by lia. f_equal. lia.
Qed.

Lemma dec_print_spec n : digits_ok (dec_print n) n.
Proof.
  unfold dec_print. destruct (dec_print_aux_spec (N.size_nat n) n []) as (ds & E & D).
  - pose proof (size_nat_bound n). rewrite Nat2N.inj_succ, N.pow_succ_r by lia. lia.
  - rewrite E, app_nil_r. exact D.
Qed.

Lemma dec_print_value n : all_digits_b (dec_print n) = true /\ digits_value (dec_print n) 0 = n.
Proof.
  destruct (dec_print_spec n) as (D1 & D2 & D3). split.
  - unfold all_digits_b. destruct (dec_print n); [congruence|exact D1].
  - specialize (D3 0%N []). rewrite app_nil_r in D3. rewrite D3. cbn [digits_value]. lia.
Qed.

(* strings without white space are left alone by WhiteSpaceCollapse *)
Definition no_ws (s : bytes) : Prop := Forall (fun c => c <> 9 /\ c <> 10 /\ c <> 13 /\ c <> 32)%N s.

Lemma ws_replace_id s : no_ws s -> ws_replace s = s.
Proof.
  induction 1 as [|c s (H1 & H2 & H3 & H4) Hs IH]; [reflexivity|]. cbn [ws_replace map]. fold (ws_replace s). rewrite IH.
  assert (N.eqb c 9 || N.eqb c 10 || N.eqb c 13 = false) as -> by lia. reflexivity.
Qed.

Lemma squeeze_id s : no_ws s -> squeeze s = s.
Proof.
  induction 1 as [|c s (H1 & H2 & H3 & H4) Hs IH]; [reflexivity|]. cbn [squeeze].
  assert (N.eqb c 32 = false) as -> by lia. now rewrite IH.
Qed.

Lemma trim_left_id s : no_ws s -> trim_left s = s.
Proof. destruct 1 as [|c s (H1 & H2 & H3 & H4) Hs]; [reflexivity|]. cbn [trim_left]. assert (N.eqb c 32 = false) as -> by lia. reflexivity. Qed.

Lemma no_ws_rev s : no_ws s -> no_ws (rev s).
Proof. unfold no_ws. rewrite !Forall_forall. intros H x Hx. apply H. now apply in_rev. Qed.

Lemma ws_collapse_id s : no_ws s -> ws_collapse s = s.
Proof.
  intros H. unfold ws_collapse, trim_right. rewrite (ws_replace_id s H), (squeeze_id s H), (trim_left_id s H).
  rewrite (trim_left_id (rev s) (no_ws_rev s H)). apply rev_involutive.
Qed.

Lemma digits_no_ws ds : forallb is_dig ds = true -> no_ws ds.
Proof.
  unfold no_ws. rewrite forallb_forall, Forall_forall. intros H x Hx. specialize (H x Hx). apply is_dig_range in H. lia.
Qed.

Lemma canon_int_facts v : no_ws (canon_int v) /\ int_lexical (canon_int v) = true /\ int_value (canon_int v) = v.
Proof.
  unfold canon_int, decz_print. destruct v as [|p|p].
  - cbn. repeat split; try reflexivity. repeat constructor; lia.
  - destruct (dec_print_value (Z.to_N (Z.pos p))) as [A B]. destruct (dec_print_spec (Z.to_N (Z.pos p))) as (D1 & D2 & _).
    split; [apply digits_no_ws; exact D1|].
    destruct (dec_print (Z.to_N (Z.pos p))) as [|c t] eqn:E; [congruence|].
    assert (N.eqb c 43 = false /\ N.eqb c 45 = false) as [E43 E45].
    { cbn [forallb] in D1. apply andb_true_iff in D1. destruct D1 as [D1 _]. apply is_dig_range in D1. lia. }
    cbn [int_lexical int_value]. rewrite E43, E45. cbn [orb]. split; [exact A|]. rewrite B. lia.
  - destruct (dec_print_value (N.pos p)) as [A B]. destruct (dec_print_spec (N.pos p)) as (D1 & D2 & _).
    split; [constructor; [lia|apply digits_no_ws; exact D1]|].
    cbn [int_lexical int_value]. change (N.eqb 45 43 || N.eqb 45 45) with true. change (N.eqb 45 45) with true.
    split; [exact A|]. rewrite B. lia.
Qed.

(* every value of a signed type maps back to itself through its canonical form *)
Theorem signed_canonical bits v : (1 <= bits <= 64)%N ->
  (- Z.of_N (2 ^ (bits - 1)) <= v <= Z.of_N (2 ^ (bits - 1)) - 1)%Z -> map_signed bits (canon_int v) = Some v.
Proof.
  intros Hb Hv. destruct (canon_int_facts v) as (N1 & N2 & N3). unfold map_signed. rewrite ws_collapse_id by exact N1.
  assert (parse_int bits (canon_int v) = inl v) as -> by (apply parse_int_spec; auto). reflexivity.
Qed.

Theorem unsigned_canonical bits v : (bits <= 64)%N -> (0 <= v <= Z.of_N (2 ^ bits - 1))%Z -> map_unsigned bits (canon_int v) = Some v.
Proof.
  intros Hb Hv. unfold map_unsigned, canon_int, decz_print.
  destruct v as [|p|p]; [| |lia].
  - change (dec_print (Z.to_N 0)) with [48%N]. assert (ws_collapse [48%N] = [48%N]) as -> by reflexivity.
    rewrite (proj2 (parse_uint_spec bits [48%N] 0 Hb)); [reflexivity|]. repeat split; try reflexivity. lia.
  - destruct (dec_print_value (Z.to_N (Z.pos p))) as [A B]. destruct (dec_print_spec (Z.to_N (Z.pos p))) as (D1 & _ & _).
    rewrite ws_collapse_id by (apply digits_no_ws; exact D1).
    rewrite (proj2 (parse_uint_spec bits _ (Z.to_N (Z.pos p)) Hb)); [f_equal; lia|]. repeat split; [exact A|exact B|lia].
Qed.

(* acceptance, stated against the grammar and the value range *)
Theorem signed_accepts bits s v : (1 <= bits <= 64)%N ->
  (map_signed bits s = Some v <->
   int_lexical (ws_collapse s) = true /\ int_value (ws_collapse s) = v /\ (- Z.of_N (2 ^ (bits - 1)) <= v <= Z.of_N (2 ^ (bits - 1)) - 1)%Z).
Proof.
  intros Hb. unfold map_signed. rewrite <- (parse_int_spec bits (ws_collapse s) v Hb).
  destruct (parse_int bits (ws_collapse s)); split; intros H; try discriminate; inversion H; reflexivity.
Qed.

Theorem boolean_canonical b : map_boolean (canon_boolean b) = Some b.
Proof. destruct b; reflexivity. Qed.

Theorem boolean_accepts s b : map_boolean s = Some b ->
  (b = true /\ (ws_collapse s = s2b "true" \/ ws_collapse s = s2b "1")) \/ (b = false /\ (ws_collapse s = s2b "false" \/ ws_collapse s = s2b "0")).
Proof.
  unfold map_boolean.
  destruct (beq (ws_collapse s) (s2b "true")) eqn:A; [apply beq_true_iff in A; intros H; inversion H; left; auto|].
  destruct (beq (ws_collapse s) (s2b "1")) eqn:B; [apply beq_true_iff in B; intros H; inversion H; left; auto|].
  destruct (beq (ws_collapse s) (s2b "false")) eqn:C; [apply beq_true_iff in C; intros H; inversion H; right; auto|].
  destruct (beq (ws_collapse s) (s2b "0")) eqn:D; [apply beq_true_iff in D; intros H; inversion H; right; auto|].
  discriminate.
Qed.

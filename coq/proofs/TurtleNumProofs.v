(* TurtleNumProofs.v — a lexical form the encoder writes as a bare token (literalShorthandDatatype) is scanned by
   produceNumericLiteral as exactly that token, with the kind the encoder computed. *)
From RK Require Import Base BaseFacts Utf8 Runes NQ TurtleTok.

Definition all_digits (d : list N) : Prop := Forall (fun c => is_digit c = true) d.

(* what may follow a number without being taken for part of it *)
Definition num_delim (rest : list N) : Prop :=
  match rest with
  | [] => True
  | c :: _ => is_digit c = false /\ c <> 46%N /\ is_e c = false
  end.

Lemma span_digits_spec : forall l d r, span_digits l = (d, r) ->
  l = d ++ r /\ all_digits d /\ match r with [] => True | c :: _ => is_digit c = false end.
Proof.
  induction l as [|c l IH]; intros d r H; cbn [span_digits] in H.
  - inversion H; subst. repeat split; constructor.
  - destruct (is_digit c) eqn:E.
    + destruct (span_digits l) as [d' r'] eqn:S. inversion H; subst.
      destruct (IH d' r eq_refl) as (-> & A & B). repeat split; [constructor; assumption|exact B].
    + inversion H; subst. repeat split; [constructor|exact E].
Qed.

Lemma digit_not_dot c : is_digit c = true -> N.eqb c 46 = false.
Proof. unfold is_digit, rng. intros H. apply andb_true_iff in H. destruct H as [H1 H2]. apply N.leb_le in H1. apply N.eqb_neq. lia. Qed.
Lemma digit_not_e c : is_digit c = true -> is_e c = false.
Proof. unfold is_digit, rng, is_e. intros H. apply andb_true_iff in H. destruct H as [H1 H2]. apply N.leb_le in H1, H2.
  apply orb_false_iff. split; apply N.eqb_neq; lia. Qed.
Lemma digit_not_sign c : is_digit c = true -> is_sign c = false.
Proof. unfold is_digit, rng, is_sign. intros H. apply andb_true_iff in H. destruct H as [H1 H2]. apply N.leb_le in H1, H2.
  apply orb_false_iff. split; apply N.eqb_neq; lia. Qed.

Lemma scan_digits st k : st <> NExpSign -> forall d r acc, all_digits d ->
  num_scan st k (d ++ r) acc = num_scan st k r (rev d ++ acc).
Proof.
  intros Hs. induction d as [|c d IH]; intros r acc H; [reflexivity|].
  inversion H as [|? ? Hc Hd]; subst. cbn [app num_scan rev]. rewrite Hc.
  destruct st; try congruence; rewrite IH by assumption; rewrite <- app_assoc; reflexivity.
Qed.

Lemma scan_end_sign k rest acc : num_delim rest -> num_scan NSign k rest acc = Some (acc, k, rest).
Proof. destruct rest as [|c r]; [reflexivity|]. intros (H1 & H2 & H3). cbn [num_scan]. now rewrite H1, (proj2 (N.eqb_neq _ _) H2), H3. Qed.
Lemma scan_end_int k rest acc : num_delim rest -> num_scan NInt k rest acc = Some (acc, k, rest).
Proof. destruct rest as [|c r]; [reflexivity|]. intros (H1 & H2 & H3). cbn [num_scan]. now rewrite H1, H3. Qed.
Lemma scan_end_exp k rest acc : num_delim rest -> num_scan NExp k rest acc = Some (acc, k, rest).
Proof. destruct rest as [|c r]; [reflexivity|]. intros (H1 & H2 & H3). cbn [num_scan]. now rewrite H1. Qed.

Lemma scan_expsign_step k c r acc : is_sign c || is_digit c = true -> num_scan NExpSign k (c :: r) acc = num_scan NExp k r (c :: acc).
Proof. intros H. cbn [num_scan]. rewrite H. reflexivity. Qed.

(* the exponent part: e [sign] digits+ *)
Lemma scan_exponent k e sg es rest acc :
  is_e e = true -> (sg = [] \/ exists s, sg = [s] /\ is_sign s = true) -> all_digits es -> es <> [] -> num_delim rest ->
  forall st, st = NSign \/ st = NInt ->
  (st = NSign -> True) ->
  num_scan st k (e :: sg ++ es ++ rest) acc = Some (rev es ++ rev sg ++ e :: acc, Some KDouble, rest).
Proof.
  intros He Hsg Hes Hne Hd st Hst _.
  assert (is_digit e = false) as Ed.
  { destruct (is_digit e) eqn:X; [apply digit_not_e in X; congruence|reflexivity]. }
  assert (N.eqb e 46 = false) as E46.
  { unfold is_e in He. apply orb_true_iff in He. destruct He as [He|He]; apply N.eqb_eq in He; subst; reflexivity. }
  assert (num_scan st k (e :: sg ++ es ++ rest) acc = num_scan NExpSign (Some KDouble) (sg ++ es ++ rest) (e :: acc)) as ->.
  { destruct Hst as [->| ->]; cbn [num_scan]; rewrite Ed, ?E46, He; reflexivity. }
  destruct es as [|d0 es']; [congruence|]. inversion Hes as [|? ? Hd0 Hes']; subst.
  destruct Hsg as [->|(s & -> & Hs)].
  - cbn [app]. rewrite scan_expsign_step by (rewrite Hd0; apply orb_true_r).
    rewrite scan_digits by (congruence || assumption). rewrite scan_end_exp by assumption.
    cbn [rev app]. rewrite <- !app_assoc. reflexivity.
  - cbn [app]. rewrite scan_expsign_step by (rewrite Hs; reflexivity).
    change (d0 :: es' ++ rest) with ((d0 :: es') ++ rest).
    rewrite scan_digits by (congruence || assumption). rewrite scan_end_exp by assumption.
    cbn [rev app]. rewrite <- !app_assoc. reflexivity.
Qed.

Lemma rev_digits_head d x : all_digits d -> d <> [] -> exists c a, rev d ++ x = c :: a /\ is_digit c = true.
Proof.
  intros H Hn. destruct (rev d) as [|c a] eqn:R.
  - apply (f_equal (@rev N)) in R. rewrite rev_involutive in R. cbn in R. congruence.
  - exists c, (a ++ x). split; [reflexivity|].
    assert (In c (rev d)) by (rewrite R; left; reflexivity). apply in_rev in H0.
    unfold all_digits in H. rewrite Forall_forall in H. auto.
Qed.

(* final step of lex_numeric on a scan result whose last consumed rune is a digit *)
Lemma finish_ok acc k rest kk tok :
  (exists c a, acc = c :: a /\ is_digit c = true) -> rev acc = tok -> shorthand_kind tok = Some kk ->
  match k with None => KInteger | Some x => x end = kk ->
  match acc with
  | [] => None
  | c :: acc' =>
      let '(acc1, k1, rest1, ok) :=
        if N.eqb c 46 then (acc', Some KInteger, 46%N :: rest, true)
        else if is_sign c || is_e c then (acc, k, rest, false)
        else (acc, k, rest, true) in
      if negb ok then None
      else match shorthand_kind (rev acc1) with
           | Some _ => Some (match k1 with None => KInteger | Some x => x end, rev acc1, rest1)
           | None => None
           end
  end = Some (kk, tok, rest).
Proof.
  intros (c & a & -> & Hc) Hr Hk Hkk.
  rewrite (digit_not_dot _ Hc), (digit_not_sign _ Hc), (digit_not_e _ Hc). cbn [orb negb].
  rewrite Hr, Hk, Hkk. reflexivity.
Qed.

Definition opt_sign (sg : list N) : Prop := sg = [] \/ exists s, sg = [s] /\ is_sign s = true.

Definition run (r0 : N) (inp : list N) : option (list N * option numkind * list N) :=
  if is_sign r0 || is_digit r0 then num_scan NSign None inp [r0]
  else if N.eqb r0 46 then num_scan NInt (Some KDecimal) inp [r0]
  else None.

Lemma lex_numeric_run r0 inp : lex_numeric r0 inp =
  match run r0 inp with
  | None => None
  | Some (acc, k, rest) =>
      match acc with
      | [] => None
      | c :: acc' =>
          let '(acc1, k1, rest1, ok) :=
            if N.eqb c 46 then (acc', Some KInteger, 46%N :: rest, true)
            else if is_sign c || is_e c then (acc, k, rest, false)
            else (acc, k, rest, true) in
          if negb ok then None
          else match shorthand_kind (rev acc1) with
               | Some _ => Some (match k1 with None => KInteger | Some x => x end, rev acc1, rest1)
               | None => None
               end
      end
  end.
Proof. reflexivity. Qed.

Lemma scan_dot k X acc : num_scan NSign k (46%N :: X) acc = num_scan NInt (Some KDecimal) X (46%N :: acc).
Proof. reflexivity. Qed.

(* the sign and integer digits, when there is at least one of them *)
Lemma run_intpart sg ds Z r0 t :
  opt_sign sg -> all_digits ds -> sg ++ ds <> [] -> sg ++ ds ++ Z = r0 :: t ->
  run r0 t = num_scan NSign None Z (rev ds ++ rev sg).
Proof.
  intros Hsg Dds Hne E. unfold run.
  destruct Hsg as [->|(s & -> & Hs)]; cbn [app] in E.
  - destruct ds as [|d0 ds']; [cbn in Hne; congruence|]. inversion Dds as [|? ? Hd0 Dds']; subst.
    cbn [app] in E. inversion E; subst. rewrite Hd0, orb_true_r.
    rewrite scan_digits by (congruence || assumption). cbn [rev app]. rewrite <- app_assoc, app_nil_r. reflexivity.
  - inversion E; subst. rewrite Hs. cbn [orb]. rewrite scan_digits by (congruence || assumption). reflexivity.
Qed.

Lemma run_dotfirst Z : run 46 Z = num_scan NInt (Some KDecimal) Z [46%N].
Proof. reflexivity. Qed.

(* the shapes literalShorthandDatatype accepts *)
Lemma shorthand_shape tok k : shorthand_kind tok = Some k ->
  exists sg ds, opt_sign sg /\ all_digits ds /\
  ((k = KInteger /\ ds <> [] /\ tok = sg ++ ds) \/
   (k = KDecimal /\ exists fs, fs <> [] /\ all_digits fs /\ tok = sg ++ ds ++ 46%N :: fs) \/
   (k = KDouble /\ exists dotfs e sg2 es,
      (dotfs = [] \/ exists fs, all_digits fs /\ dotfs = 46%N :: fs) /\ is_e e = true /\ opt_sign sg2 /\ all_digits es /\ es <> [] /\
      (ds <> [] \/ exists f0 fs, dotfs = 46%N :: f0 :: fs) /\ tok = sg ++ ds ++ dotfs ++ e :: sg2 ++ es)).
Proof.
  intros Hk. unfold shorthand_kind in Hk.
  set (l1 := match tok with c :: r => if is_sign c then r else tok | [] => tok end) in *.
  assert (exists sg, tok = sg ++ l1 /\ opt_sign sg) as (sg & Etok & Hsg).
  { subst l1. destruct tok as [|c r]; [exists []; split; [reflexivity|left; reflexivity]|].
    destruct (is_sign c) eqn:X; [exists [c]; split; [reflexivity|right; exists c; auto]|exists []; split; [reflexivity|left; reflexivity]]. }
  destruct (span_digits l1) as [ds l2] eqn:S1. apply span_digits_spec in S1. destruct S1 as (E1 & Dds & N2).
  exists sg, ds. split; [exact Hsg|]. split; [exact Dds|].
  destruct l2 as [|c2 r2].
  - (* integer *)
    destruct ds as [|d0 ds']; [discriminate|]. inversion Hk; subst k. left. repeat split; [discriminate|].
    rewrite Etok, E1, app_nil_r. reflexivity.
  - destruct (N.eqb c2 46) eqn:X.
    + apply N.eqb_eq in X. subst c2.
      destruct (span_digits r2) as [fs l3] eqn:S2. apply span_digits_spec in S2. destruct S2 as (-> & Dfs & N3).
      destruct l3 as [|e l4].
      * (* decimal *)
        destruct fs as [|f0 fs']; [discriminate|]. inversion Hk; subst k. right; left. split; [reflexivity|].
        exists (f0 :: fs'). repeat split; [discriminate|exact Dfs|]. rewrite Etok, E1, app_nil_r. reflexivity.
      * (* double with a fraction *)
        destruct (is_e e) eqn:Ee; [|discriminate].
        set (r1 := match l4 with s :: r' => if is_sign s then r' else l4 | [] => l4 end) in *.
        assert (exists sg2, l4 = sg2 ++ r1 /\ opt_sign sg2) as (sg2 & El4 & Hsg2).
        { subst r1. destruct l4 as [|c r]; [exists []; split; [reflexivity|left; reflexivity]|].
          destruct (is_sign c) eqn:Y; [exists [c]; split; [reflexivity|right; exists c; auto]|exists []; split; [reflexivity|left; reflexivity]]. }
        destruct (span_digits r1) as [es r3] eqn:S3. apply span_digits_spec in S3. destruct S3 as (Er1 & Des & _).
        destruct es as [|e0 es']; [discriminate|]. destruct r3; [|discriminate]. rewrite app_nil_r in Er1.
        assert (k = KDouble /\ (ds <> [] \/ fs <> [])) as [-> Hdf].
        { destruct ds, fs; try discriminate; inversion Hk; split; auto; [right|left|left]; discriminate. }
        right; right. split; [reflexivity|]. exists (46%N :: fs), e, sg2, (e0 :: es').
        repeat split; auto; try discriminate.
        -- right. exists fs. auto.
        -- destruct Hdf as [Hdf|Hdf]; [left; exact Hdf|]. destruct fs as [|f0 fs']; [congruence|]. right. exists f0, fs'. reflexivity.
        -- rewrite Etok, E1, El4, Er1. cbn [app]. rewrite <- ?app_assoc. reflexivity.
    + (* double without a fraction *)
      destruct (is_e c2) eqn:Ee; [|discriminate].
      set (r1 := match r2 with s :: r' => if is_sign s then r' else r2 | [] => r2 end) in *.
      assert (exists sg2, r2 = sg2 ++ r1 /\ opt_sign sg2) as (sg2 & El4 & Hsg2).
      { subst r1. destruct r2 as [|c r]; [exists []; split; [reflexivity|left; reflexivity]|].
        destruct (is_sign c) eqn:Y; [exists [c]; split; [reflexivity|right; exists c; auto]|exists []; split; [reflexivity|left; reflexivity]]. }
      destruct (span_digits r1) as [es r3] eqn:S3. apply span_digits_spec in S3. destruct S3 as (Er1 & Des & _).
      destruct es as [|e0 es']; [discriminate|]. destruct r3; [|discriminate]. rewrite app_nil_r in Er1.
      destruct ds as [|d0 ds']; [discriminate|]. inversion Hk; subst k.
      right; right. split; [reflexivity|]. exists [], c2, sg2, (e0 :: es').
      repeat split; auto; try discriminate.
      * left. discriminate.
      * rewrite Etok, E1, El4, Er1. cbn [app]. reflexivity.
Qed.

Lemma app_ne_r (a b : list N) : b <> [] -> a ++ b <> [].
Proof. intros H X. apply app_eq_nil in X. destruct X; congruence. Qed.

Lemma last_digit_acc es x : all_digits es -> es <> [] -> exists c a, rev es ++ x = c :: a /\ is_digit c = true.
Proof. apply rev_digits_head. Qed.

Theorem numeric_roundtrip tok k rest r0 t :
  shorthand_kind tok = Some k -> tok = r0 :: t -> num_delim rest ->
  lex_numeric r0 (t ++ rest) = Some (k, tok, rest).
Proof.
  intros Hk Ht Hd. rewrite lex_numeric_run.
  destruct (shorthand_shape tok k Hk) as (sg & ds & Hsg & Dds & [ (-> & Hne & Etok) | [ (-> & fs & Hfne & Dfs & Etok) | (-> & dotfs & e & sg2 & es & Hdot & Ee & Hsg2 & Des & Hesne & Hdf & Etok) ] ]).
  - (* INTEGER *)
    assert (sg ++ ds ++ rest = r0 :: t ++ rest) as E by (rewrite app_assoc, <- Etok, Ht; reflexivity).
    rewrite (run_intpart sg ds rest r0 (t ++ rest) Hsg Dds (app_ne_r sg ds Hne) E).
    rewrite scan_end_sign by exact Hd.
    destruct (last_digit_acc ds (rev sg) Dds Hne) as (c & a & Hca & Hc).
    apply finish_ok; [exists c, a; auto| |exact Hk|reflexivity].
    rewrite rev_app_distr, !rev_involutive, <- Etok. reflexivity.
  - (* DECIMAL *)
    assert (Hrun : run r0 (t ++ rest) = num_scan NInt (Some KDecimal) (fs ++ rest) (46%N :: rev ds ++ rev sg)).
    { destruct (list_eq_dec N.eq_dec (sg ++ ds) []) as [Enil|Enn].
      - apply app_eq_nil in Enil. destruct Enil as [-> ->]. cbn [app] in Etok. rewrite Ht in Etok. inversion Etok; subst. apply run_dotfirst.
      - assert (sg ++ ds ++ (46%N :: fs ++ rest) = r0 :: t ++ rest) as E.
        { rewrite Ht in Etok. change (r0 :: t ++ rest) with ((r0 :: t) ++ rest). rewrite Etok. rewrite <- !app_assoc. reflexivity. }
        rewrite (run_intpart sg ds _ r0 (t ++ rest) Hsg Dds Enn E). apply scan_dot. }
    rewrite Hrun. rewrite scan_digits by (congruence || assumption). rewrite scan_end_int by exact Hd.
    destruct (last_digit_acc fs (46%N :: rev ds ++ rev sg) Dfs Hfne) as (c & a & Hca & Hc).
    apply finish_ok; [exists c, a; auto| |exact Hk|reflexivity].
    rewrite rev_app_distr. cbn [rev]. rewrite rev_app_distr, !rev_involutive, <- ?app_assoc. cbn [app]. rewrite <- ?app_assoc. rewrite Etok. reflexivity.
  - (* DOUBLE *)
    assert (Hrun : exists st, (st = NSign \/ st = NInt) /\
       run r0 (t ++ rest) = num_scan st (match dotfs with [] => None | _ => Some KDecimal end) (e :: sg2 ++ es ++ rest) (rev dotfs ++ rev ds ++ rev sg)).
    { destruct Hdot as [->|(fs & Dfs & ->)].
      - destruct Hdf as [Hdf|(f0 & fs' & X)]; [|discriminate].
        exists NSign. split; [auto|]. cbn [app rev] in *.
        assert (sg ++ ds ++ (e :: sg2 ++ es ++ rest) = r0 :: t ++ rest) as E.
        { rewrite Ht in Etok. change (r0 :: t ++ rest) with ((r0 :: t) ++ rest). rewrite Etok. rewrite <- !app_assoc. cbn [app]. rewrite <- !app_assoc. reflexivity. }
        apply (run_intpart sg ds _ r0 (t ++ rest) Hsg Dds (app_ne_r sg ds Hdf) E).
      - exists NInt. split; [auto|]. cbn [rev]. rewrite <- !app_assoc. cbn [app].
        destruct (list_eq_dec N.eq_dec (sg ++ ds) []) as [Enil|Enn].
        + apply app_eq_nil in Enil. destruct Enil as [-> ->]. cbn [app rev] in *. rewrite Ht in Etok. inversion Etok; subst.
          rewrite run_dotfirst. rewrite <- ?app_assoc. cbn [app]. rewrite <- ?app_assoc. rewrite scan_digits by (congruence || assumption). reflexivity.
        + assert (sg ++ ds ++ (46%N :: fs ++ e :: sg2 ++ es ++ rest) = r0 :: t ++ rest) as E.
          { rewrite Ht in Etok. change (r0 :: t ++ rest) with ((r0 :: t) ++ rest). rewrite Etok. rewrite <- !app_assoc. cbn [app]. rewrite <- !app_assoc. reflexivity. }
          rewrite (run_intpart sg ds _ r0 (t ++ rest) Hsg Dds Enn E). rewrite scan_dot.
          rewrite scan_digits by (congruence || assumption). reflexivity. }
    destruct Hrun as (st & Hst & ->).
    rewrite (scan_exponent _ e sg2 es rest _ Ee Hsg2 Des Hesne Hd st Hst (fun _ => I)).
    destruct (last_digit_acc es (rev sg2 ++ e :: rev dotfs ++ rev ds ++ rev sg) Des Hesne) as (c & a & Hca & Hc).
    apply finish_ok; [exists c, a; auto| | exact Hk|].
    + rewrite !rev_app_distr. cbn [rev]. rewrite ?rev_app_distr, !rev_involutive, <- ?app_assoc. cbn [app]. rewrite <- ?app_assoc. rewrite Etok. reflexivity.
    + destruct dotfs; reflexivity.
Qed.

(* BNodesProofs.v — freshness, label-function and injectivity invariants over all schedules *)
From RK Require Import Base BaseFacts BNodes.
Arguments fresh : simpl never.
Arguments give : simpl never.

Lemma bid_eqb_eq a b : bid_eqb a b = true <-> a = b.
Proof.
  destruct a, b; simpl; try (split; [discriminate|intros; discriminate]).
  - rewrite N.eqb_eq. split; congruence.
  - rewrite andb_true_iff, Nat.eqb_eq, N.eqb_eq. split; [intros [-> ->]; reflexivity|intros [= -> ->]; auto].
  - rewrite andb_true_iff, Nat.eqb_eq, beq_true_iff. split; [intros [-> ->]; reflexivity|intros [= -> ->]; auto].
Qed.

Lemma bid_eqb_refl a : bid_eqb a a = true.
Proof. now apply bid_eqb_eq. Qed.

Lemma assoc_bid_In {A} k (l : list (bid * A)) v : assoc_bid k l = Some v -> In (k, v) l.
Proof.
  induction l as [|[k' v'] l IH]; simpl; [discriminate|].
  destruct (bid_eqb k' k) eqn:E.
  - apply bid_eqb_eq in E. subst. intros [= ->]. auto.
  - auto.
Qed.

Lemma assoc_bid_None {A} k (l : list (bid * A)) : assoc_bid k l = None -> ~ In k (map fst l).
Proof.
  induction l as [|[k' v'] l IH]; simpl; [tauto|].
  destruct (bid_eqb k' k) eqn:E; [discriminate|].
  intros H [H1|H1]; [subst; rewrite bid_eqb_refl in E; discriminate|]. now apply IH.
Qed.

(* ---------- freshness ---------- *)
(* every counter-based node handed out so far is below its factory's counter *)
Definition node_ok (w : world) (b : bid) : Prop :=
  match b with
  | BDef v => (v <= w_def w)%N
  | BFac f v => exists c, nth_error (w_facs w) f = Some c /\ (v <= c)%N
  | BStr _ _ => True
  end.

Definition WF (w : world) : Prop :=
  Forall (node_ok w) (w_nodes w) /\
  Forall (fun a => a < length (w_facs w)) (w_sfacs w) /\
  Forall (fun m => Forall (fun kv => In (snd kv) (w_nodes w)) (m_known m)) (w_maps w).

Lemma set_nth_length {A} i (x : A) l : length (set_nth i x l) = length l.
Proof. revert i; induction l as [|y l IH]; intros [|i]; simpl; auto. Qed.

Lemma nth_error_set_nth_eq {A} i (x : A) l y : nth_error l i = Some y -> nth_error (set_nth i x l) i = Some x.
Proof. revert i; induction l as [|z l IH]; intros [|i]; simpl; try discriminate; auto. Qed.

Lemma nth_error_set_nth_neq {A} i j (x : A) l : i <> j -> nth_error (set_nth i x l) j = nth_error l j.
Proof. revert i j; induction l as [|z l IH]; intros [|i] [|j] H; simpl; auto; congruence. Qed.

Lemma nth_error_app_l {A} (l l' : list A) i x : nth_error l i = Some x -> nth_error (l ++ l') i = Some x.
Proof. intros H. rewrite nth_error_app1; [assumption|]. apply nth_error_Some. congruence. Qed.

(* monotonicity of node_ok under the state changes a step can make *)
Definition ext (w w' : world) : Prop :=
  (w_def w <= w_def w')%N /\
  (forall f c, nth_error (w_facs w) f = Some c -> exists c', nth_error (w_facs w') f = Some c' /\ (c <= c')%N).

Lemma ext_refl w : ext w w.
Proof. split; [lia|]. intros f c H. exists c. split; [assumption|lia]. Qed.

Lemma node_ok_ext w w' b : ext w w' -> node_ok w b -> node_ok w' b.
Proof.
  intros [H1 H2]. destruct b; simpl; [lia| |auto].
  intros (c & Hc & Hv). destruct (H2 _ _ Hc) as (c' & Hc' & Hle). exists c'. split; [assumption|lia].
Qed.

Lemma fresh_spec w f w' b :
  fresh w f = Some (w', b) ->
  ext w w' /\ node_ok w' b /\ (forall x, node_ok w x -> x <> b) /\
  w_nodes w' = w_nodes w ++ [b] /\ w_sfacs w' = w_sfacs w /\ w_provs w' = w_provs w /\
  w_uprovs w' = w_uprovs w /\ w_maps w' = w_maps w /\ length (w_facs w') = length (w_facs w).
Proof.
  unfold fresh. destruct f as [i|].
  - destruct (nth_error (w_facs w) i) as [c|] eqn:E; [|discriminate].
    intros [= <- <-]. unfold ext, give. simpl. repeat split; auto.
    + lia.
    + intros f c0 H. destruct (Nat.eq_dec i f) as [->|Hne].
      * exists (c + 1)%N. rewrite (nth_error_set_nth_eq _ _ _ _ E). split; [reflexivity|]. rewrite E in H. injection H as <-. lia.
      * exists c0. rewrite nth_error_set_nth_neq by assumption. split; [assumption|lia].
    + exists (c + 1)%N. split; [eapply nth_error_set_nth_eq; eauto|lia].
    + intros x Hx ->. simpl in Hx. destruct Hx as (c0 & Hc0 & Hle). rewrite E in Hc0. injection Hc0 as <-. lia.
    + apply set_nth_length.
  - intros [= <- <-]. unfold ext, give. simpl. repeat split; auto.
    + lia.
    + intros f c H. exists c. split; [assumption|lia].
    + lia.
    + intros x Hx ->. simpl in Hx. lia.
Qed.

Definition is_fresh_out (w : world) (o : op) : bool :=
  match o with
  | OBlank _ | OStrAnon _ | OStrBlank _ [] => true
  | OMap m k =>
      match nth_error (w_maps w) m, nth_error (w_nodes w) k with
      | Some mp, Some b => match assoc_bid b (m_known mp) with None => true | Some _ => false end
      | _, _ => false
      end
  | _ => false
  end.

Lemma Forall_set_nth {A} (P : A -> Prop) i x l : Forall P l -> P x -> Forall P (set_nth i x l).
Proof. intros H Hx. revert i. induction H; intros [|i]; simpl; constructor; auto. Qed.

Lemma WF_give w b : WF w -> node_ok w b -> WF (give w b).
Proof.
  intros (H1 & H2 & H3) Hb. unfold WF, give. simpl. repeat split.
  - apply Forall_app. split; [|constructor; [exact Hb|constructor]].
    eapply Forall_impl; [|exact H1]. intros x Hx. destruct x; simpl in *; auto.
  - exact H2.
  - eapply Forall_impl; [|exact H3]. intros m Hm. eapply Forall_impl; [|exact Hm].
    intros kv Hkv. apply in_or_app. auto.
Qed.

Lemma WF_fresh w f w' b : WF w -> fresh w f = Some (w', b) -> WF w'.
Proof.
  intros (H1 & H2 & H3) Hf. apply fresh_spec in Hf as (He & Hb & _ & Hn & Hs & _ & _ & Hm & Hl).
  unfold WF. rewrite Hn, Hs, Hm, Hl. repeat split.
  - apply Forall_app. split; [|constructor; [exact Hb|constructor]].
    eapply Forall_impl; [|exact H1]. intros x. now apply node_ok_ext.
  - exact H2.
  - eapply Forall_impl; [|exact H3]. intros m Hmm. eapply Forall_impl; [|exact Hmm].
    intros kv Hkv. apply in_or_app. auto.
Qed.

Lemma WF_same_nodes w w' :
  WF w -> w_nodes w' = w_nodes w -> w_def w' = w_def w -> w_facs w' = w_facs w -> w_sfacs w' = w_sfacs w ->
  w_maps w' = w_maps w -> WF w'.
Proof.
  intros (H1 & H2 & H3) Hn Hd Hf Hs Hm. unfold WF. rewrite Hn, Hf, Hs, Hm. repeat split; auto.
  eapply Forall_impl; [|exact H1]. intros x. destruct x; simpl; rewrite ?Hd, ?Hf; auto.
Qed.

Theorem step_WF w o : WF w -> WF (fst (step w o)).
Proof.
  intros HW. pose proof HW as (H1 & H2 & H3).
  destruct o; simpl.
  - (* ONewFactory *) unfold WF. simpl. repeat split; auto.
    + eapply Forall_impl; [|exact H1]. intros x. destruct x; simpl; auto.
      intros (c & Hc & Hle). exists c. split; [now apply nth_error_app_l|assumption].
    + eapply Forall_impl; [|exact H2]. intros a Ha. simpl in Ha. rewrite app_length. simpl. lia.
  - (* ONewStringFactory *) unfold WF. simpl. repeat split; auto.
    + eapply Forall_impl; [|exact H1]. intros x. destruct x; simpl; auto.
      intros (c & Hc & Hle). exists c. split; [now apply nth_error_app_l|assumption].
    + apply Forall_app. split.
      * eapply Forall_impl; [|exact H2]. intros a Ha. simpl in Ha. rewrite app_length. simpl. lia.
      * constructor; [|constructor]. rewrite app_length. simpl. lia.
  - eapply WF_same_nodes; eauto.
  - eapply WF_same_nodes; eauto.
  - (* ONewMapper *) destruct f as [i|].
    + destruct (Nat.ltb i (length (w_facs w))); simpl; [|assumption].
      unfold WF. simpl. repeat split; auto. apply Forall_app. split; [assumption|]. repeat constructor.
    + unfold WF. simpl. repeat split; auto. apply Forall_app. split; [assumption|]. repeat constructor.
  - (* OBlank *) destruct (fresh w f) as [[w' b]|] eqn:E; simpl; [|assumption]. eapply WF_fresh; eauto.
  - (* OStrBlank *) destruct (nth_error (w_sfacs w) sf) as [a|]; simpl; [|assumption].
    destruct l.
    + destruct (fresh w (Some a)) as [[w' b]|] eqn:E; simpl; [|assumption]. eapply WF_fresh; eauto.
    + simpl. apply WF_give; [assumption|exact I].
  - (* OStrAnon *) destruct (nth_error (w_sfacs w) sf) as [a|]; simpl; [|assumption].
    destruct (fresh w (Some a)) as [[w' b]|] eqn:E; simpl; [|assumption]. eapply WF_fresh; eauto.
  - (* OGet *) destruct (nth_error (w_provs w) p) as [pr|]; [|assumption].
    destruct (nth_error (w_nodes w) k) as [b|]; [|assumption].
    destruct (assoc_bid b (p_known pr)); simpl; [assumption|]. eapply WF_same_nodes; eauto.
  - (* OGetU *) destruct (nth_error (w_uprovs w) p) as [pr|]; [|assumption].
    destruct (nth_error (w_nodes w) k) as [b|]; [|assumption].
    destruct (assoc_bid b (u_known pr)); simpl; [assumption|]. eapply WF_same_nodes; eauto.
  - (* OMap *) destruct (nth_error (w_maps w) m) as [mp|] eqn:Em; [|assumption].
    destruct (nth_error (w_nodes w) k) as [b|]; [|assumption].
    destruct (assoc_bid b (m_known mp)) as [b'|] eqn:Ea; simpl.
    + apply WF_give; [assumption|].
      apply assoc_bid_In in Ea. rewrite Forall_forall in H3. apply nth_error_In in Em.
      specialize (H3 _ Em). rewrite Forall_forall in H3. specialize (H3 _ Ea). simpl in H3.
      rewrite Forall_forall in H1. now apply H1.
    + destruct (fresh w (match m_fac mp with O => None | S i => Some i end)) as [[w' b']|] eqn:E; simpl; [|assumption].
      pose proof (WF_fresh _ _ _ _ HW E) as (H1' & H2' & H3').
      apply fresh_spec in E as (He & Hb & _ & Hn & Hs & _ & _ & Hm & Hl).
      unfold WF. simpl. repeat split; auto.
      apply Forall_set_nth; [assumption|]. simpl. constructor.
      * simpl. rewrite Hn. apply in_or_app. right. left. reflexivity.
      * rewrite Hm in H3'. rewrite Forall_forall in H3'. apply H3'. eapply nth_error_In; eauto.
Qed.

Lemma run_from_WF ops : forall w, WF w -> WF (fst (run_from w ops)).
Proof.
  induction ops as [|o ops IH]; intros w HW; simpl; [assumption|].
  destruct (step w o) as [w' r] eqn:E. destruct (run_from w' ops) as [w'' rs] eqn:E2. simpl.
  change w'' with (fst (w'', rs)). rewrite <- E2. apply IH. change w' with (fst (w', r)). rewrite <- E. now apply step_WF.
Qed.

Lemma WF_world0 : WF world0.
Proof. unfold WF, world0. simpl. repeat split; constructor. Qed.

Theorem run_WF ops : WF (fst (run ops)).
Proof. apply run_from_WF, WF_world0. Qed.

(* a node produced by a fresh step differs from every node handed out before, by any factory *)
Theorem fresh_step_new w o w' b :
  WF w -> is_fresh_out w o = true -> step w o = (w', RNode b) -> ~ In b (w_nodes w).
Proof.
  intros (H1 & H2 & H3) Hf Hs Hin.
  rewrite Forall_forall in H1. specialize (H1 _ Hin).
  assert (Hgen : forall f w1 b1, fresh w f = Some (w1, b1) -> b1 <> b \/ False).
  { intros f w1 b1 E. apply fresh_spec in E as (_ & _ & Hnew & _). left. intros ->. eapply Hnew; eauto. }
  destruct o; simpl in Hf, Hs; try discriminate.
  - destruct (fresh w f) as [[w1 b1]|] eqn:E; [|discriminate]. injection Hs as <- <-. destruct (Hgen _ _ _ E); auto.
  - destruct (nth_error (w_sfacs w) sf) as [a|]; [|discriminate]. destruct l; [|discriminate].
    destruct (fresh w (Some a)) as [[w1 b1]|] eqn:E; [|discriminate]. injection Hs as <- <-. destruct (Hgen _ _ _ E); auto.
  - destruct (nth_error (w_sfacs w) sf) as [a|]; [|discriminate].
    destruct (fresh w (Some a)) as [[w1 b1]|] eqn:E; [|discriminate]. injection Hs as <- <-. destruct (Hgen _ _ _ E); auto.
  - destruct (nth_error (w_maps w) m) as [mp|]; [|discriminate].
    destruct (nth_error (w_nodes w) k) as [b0|]; [|discriminate].
    destruct (assoc_bid b0 (m_known mp)); [discriminate|].
    destruct (fresh w (match m_fac mp with O => None | S i => Some i end)) as [[w1 b1]|] eqn:E; [|discriminate].
    injection Hs as <- <-. destruct (Hgen _ _ _ E); auto.
Qed.

(* ---------- string factories ---------- *)
Theorem string_factory_eq f l f' l' :
  bid_eqb (BStr f l) (BStr f' l') = true <-> f = f' /\ l = l'.
Proof. rewrite bid_eqb_eq. split; [intros [= -> ->]; auto|intros [-> ->]; reflexivity]. Qed.

Theorem string_vs_counter_distinct f l b : (forall g m, b <> BStr g m) -> bid_eqb (BStr f l) b = false.
Proof. intros H. destruct b; simpl; auto. exfalso. eapply H; eauto. Qed.

(* ---------- label providers ---------- *)
(* invariant of one provider: labels below the counter, pairwise distinct, one per node *)
Definition prov_ok (p : provider) : Prop :=
  NoDup (map fst (p_known p)) /\ NoDup (map snd (p_known p)) /\ Forall (fun kv => (snd kv < p_next p)%N) (p_known p).

Definition uprov_ok (p : uprovider) : Prop :=
  NoDup (map fst (u_known p)) /\ NoDup (map snd (u_known p)) /\ Forall (fun kv => snd kv < u_draws p) (u_known p).

Definition PInv (w : world) : Prop := Forall prov_ok (w_provs w) /\ Forall uprov_ok (w_uprovs w).

Lemma step_PInv w o : PInv w -> PInv (fst (step w o)).
Proof.
  intros [HP HU]. destruct o; simpl; try (split; assumption).
  - split; [|assumption]. apply Forall_app. split; [assumption|]. repeat constructor.
  - split; [assumption|]. apply Forall_app. split; [assumption|]. repeat constructor.
  - destruct f as [i|]; [destruct (Nat.ltb i (length (w_facs w)))|]; simpl; split; assumption.
  - destruct (fresh w f) as [[w' b]|] eqn:E; simpl; [|split; assumption].
    apply fresh_spec in E as (_ & _ & _ & _ & _ & Hp & Hu & _). unfold PInv. now rewrite Hp, Hu.
  - destruct (nth_error (w_sfacs w) sf) as [a|]; simpl; [|split; assumption].
    destruct l; [|split; assumption].
    destruct (fresh w (Some a)) as [[w' b]|] eqn:E; simpl; [|split; assumption].
    apply fresh_spec in E as (_ & _ & _ & _ & _ & Hp & Hu & _). unfold PInv. now rewrite Hp, Hu.
  - destruct (nth_error (w_sfacs w) sf) as [a|]; simpl; [|split; assumption].
    destruct (fresh w (Some a)) as [[w' b]|] eqn:E; simpl; [|split; assumption].
    apply fresh_spec in E as (_ & _ & _ & _ & _ & Hp & Hu & _). unfold PInv. now rewrite Hp, Hu.
  - destruct (nth_error (w_provs w) p) as [pr|] eqn:Ep; [|split; assumption].
    destruct (nth_error (w_nodes w) k) as [b|]; [|split; assumption].
    destruct (assoc_bid b (p_known pr)) eqn:Ea; simpl; [split; assumption|].
    split; [|assumption]. apply Forall_set_nth; [assumption|].
    rewrite Forall_forall in HP. apply nth_error_In in Ep. destruct (HP _ Ep) as (N1 & N2 & N3).
    unfold prov_ok. simpl. repeat split.
    + constructor; [now apply assoc_bid_None|assumption].
    + constructor; [|assumption]. intros Hin. apply in_map_iff in Hin as (kv & Hkv & Hin).
      rewrite Forall_forall in N3. specialize (N3 _ Hin). lia.
    + constructor; [simpl; lia|]. eapply Forall_impl; [|exact N3]. intros kv Hkv. simpl in *. lia.
  - destruct (nth_error (w_uprovs w) p) as [pr|] eqn:Ep; [|split; assumption].
    destruct (nth_error (w_nodes w) k) as [b|]; [|split; assumption].
    destruct (assoc_bid b (u_known pr)) eqn:Ea; simpl; [split; assumption|].
    split; [assumption|]. apply Forall_set_nth; [assumption|].
    rewrite Forall_forall in HU. apply nth_error_In in Ep. destruct (HU _ Ep) as (N1 & N2 & N3).
    unfold uprov_ok. simpl. repeat split.
    + constructor; [now apply assoc_bid_None|assumption].
    + constructor; [|assumption]. intros Hin. apply in_map_iff in Hin as (kv & Hkv & Hin).
      rewrite Forall_forall in N3. specialize (N3 _ Hin). lia.
    + constructor; [simpl; lia|]. eapply Forall_impl; [|exact N3]. intros kv Hkv. simpl in *. lia.
  - destruct (nth_error (w_maps w) m) as [mp|]; [|split; assumption].
    destruct (nth_error (w_nodes w) k) as [b|]; [|split; assumption].
    destruct (assoc_bid b (m_known mp)); simpl; [split; assumption|].
    destruct (fresh w (match m_fac mp with O => None | S i => Some i end)) as [[w' b']|] eqn:E; simpl; [|split; assumption].
    apply fresh_spec in E as (_ & _ & _ & _ & _ & Hp & Hu & _). unfold PInv. simpl. now rewrite Hp, Hu.
Qed.

(* the label a provider holds for a node *)
Definition label_of (w : world) (p : nat) (b : bid) : option N :=
  match nth_error (w_provs w) p with Some pr => assoc_bid b (p_known pr) | None => None end.

Lemma assoc_bid_cons_other {A} k k' (v : A) l : bid_eqb k' k = false -> assoc_bid k ((k', v) :: l) = assoc_bid k l.
Proof. intros H. simpl. now rewrite H. Qed.

(* labels are stable: once a provider holds a label for a node, every later state holds the same one *)
Lemma step_label_stable w o p b n : label_of w p b = Some n -> label_of (fst (step w o)) p b = Some n.
Proof.
  unfold label_of. intros H.
  destruct o; simpl; auto.
  - destruct (nth_error (w_provs w) p) as [pr|] eqn:E; [|discriminate]. now rewrite (nth_error_app_l _ _ _ _ E).
  - destruct f as [i|]; [destruct (Nat.ltb i (length (w_facs w)))|]; simpl; auto.
  - destruct (fresh w f) as [[w' b']|] eqn:E; simpl; auto.
    apply fresh_spec in E as (_ & _ & _ & _ & _ & Hp & _). now rewrite Hp.
  - destruct (nth_error (w_sfacs w) sf) as [a|]; simpl; auto. destruct l; simpl; auto.
    destruct (fresh w (Some a)) as [[w' b']|] eqn:E; simpl; auto.
    apply fresh_spec in E as (_ & _ & _ & _ & _ & Hp & _). now rewrite Hp.
  - destruct (nth_error (w_sfacs w) sf) as [a|]; simpl; auto.
    destruct (fresh w (Some a)) as [[w' b']|] eqn:E; simpl; auto.
    apply fresh_spec in E as (_ & _ & _ & _ & _ & Hp & _). now rewrite Hp.
  - destruct (nth_error (w_provs w) p0) as [pr|] eqn:Ep; auto.
    destruct (nth_error (w_nodes w) k) as [b0|]; auto.
    destruct (assoc_bid b0 (p_known pr)) eqn:Ea; simpl; auto.
    destruct (Nat.eq_dec p0 p) as [->|Hne].
    + rewrite Ep in H. rewrite (nth_error_set_nth_eq _ _ _ _ Ep). simpl.
      destruct (bid_eqb b0 b) eqn:Eb; [|assumption]. apply bid_eqb_eq in Eb. subst. congruence.
    + now rewrite nth_error_set_nth_neq.
  - destruct (nth_error (w_uprovs w) p0) as [pr|]; auto.
    destruct (nth_error (w_nodes w) k) as [b0|]; auto.
    destruct (assoc_bid b0 (u_known pr)); simpl; auto.
  - destruct (nth_error (w_maps w) m) as [mp|]; auto.
    destruct (nth_error (w_nodes w) k) as [b0|]; auto.
    destruct (assoc_bid b0 (m_known mp)); simpl; auto.
    destruct (fresh w (match m_fac mp with O => None | S i => Some i end)) as [[w' b']|] eqn:E; simpl; auto.
    apply fresh_spec in E as (_ & _ & _ & _ & _ & Hp & _). now rewrite Hp.
Qed.

(* GetBlankNodeString returns exactly the label the provider holds afterwards *)
Lemma step_get_recorded w p k w' n :
  step w (OGet p k) = (w', RLabel n) ->
  exists b, nth_error (w_nodes w) k = Some b /\ label_of w' p b = Some n.
Proof.
  simpl. destruct (nth_error (w_provs w) p) as [pr|] eqn:Ep; [|discriminate].
  destruct (nth_error (w_nodes w) k) as [b|]; [|discriminate].
  destruct (assoc_bid b (p_known pr)) eqn:Ea.
  - intros [= <- <-]. exists b. split; [reflexivity|]. unfold label_of. now rewrite Ep.
  - intros [= <- <-]. exists b. split; [reflexivity|]. unfold label_of. simpl.
    rewrite (nth_error_set_nth_eq _ _ _ _ Ep). simpl. now rewrite bid_eqb_refl.
Qed.

(* injectivity in every invariant state *)
Lemma label_injective w p b b' n : PInv w -> label_of w p b = Some n -> label_of w p b' = Some n -> b = b'.
Proof.
  intros [HP _]. unfold label_of. destruct (nth_error (w_provs w) p) as [pr|] eqn:Ep; [|discriminate].
  rewrite Forall_forall in HP. apply nth_error_In in Ep. destruct (HP _ Ep) as (_ & N2 & _).
  intros H1 H2. apply assoc_bid_In in H1, H2.
  clear -N2 H1 H2. induction (p_known pr) as [|[k v] l IH]; simpl in *; [contradiction|].
  inversion N2 as [|? ? Hn Hnd]; subst.
  destruct H1 as [E1|H1], H2 as [E2|H2].
  - congruence.
  - injection E1 as Ek Ev. subst k v. exfalso. apply Hn. change n with (snd (b', n)). now apply in_map.
  - injection E2 as Ek Ev. subst k v. exfalso. apply Hn. change n with (snd (b, n)). now apply in_map.
  - now apply IH.
Qed.

(* nodes handed out are never forgotten or renumbered *)
Lemma step_nodes_prefix w o k b : nth_error (w_nodes w) k = Some b -> nth_error (w_nodes (fst (step w o))) k = Some b.
Proof.
  intros H. destruct o; simpl; auto.
  - destruct f as [i|]; [destruct (Nat.ltb i (length (w_facs w)))|]; simpl; auto.
  - destruct (fresh w f) as [[w' b']|] eqn:E; simpl; auto.
    apply fresh_spec in E as (_ & _ & _ & Hn & _). rewrite Hn. now apply nth_error_app_l.
  - destruct (nth_error (w_sfacs w) sf) as [a|]; simpl; auto. destruct l; simpl.
    + destruct (fresh w (Some a)) as [[w' b']|] eqn:E; simpl; auto.
      apply fresh_spec in E as (_ & _ & _ & Hn & _). rewrite Hn. now apply nth_error_app_l.
    + now apply nth_error_app_l.
  - destruct (nth_error (w_sfacs w) sf) as [a|]; simpl; auto.
    destruct (fresh w (Some a)) as [[w' b']|] eqn:E; simpl; auto.
    apply fresh_spec in E as (_ & _ & _ & Hn & _). rewrite Hn. now apply nth_error_app_l.
  - destruct (nth_error (w_provs w) p) as [pr|]; auto. destruct (nth_error (w_nodes w) k0) as [b0|]; auto.
    destruct (assoc_bid b0 (p_known pr)); simpl; auto.
  - destruct (nth_error (w_uprovs w) p) as [pr|]; auto. destruct (nth_error (w_nodes w) k0) as [b0|]; auto.
    destruct (assoc_bid b0 (u_known pr)); simpl; auto.
  - destruct (nth_error (w_maps w) m) as [mp|]; auto. destruct (nth_error (w_nodes w) k0) as [b0|]; auto.
    destruct (assoc_bid b0 (m_known mp)); simpl.
    + now apply nth_error_app_l.
    + destruct (fresh w (match m_fac mp with O => None | S i => Some i end)) as [[w' b']|] eqn:E; simpl; auto.
      apply fresh_spec in E as (_ & _ & _ & Hn & _). rewrite Hn. now apply nth_error_app_l.
Qed.

(* ---------- trace-level statement over every schedule ---------- *)
(* [Seen w log]: every label observed in the log is the one the final state holds for that node *)
Definition Seen (w : world) (log : list (op * out)) : Prop :=
  forall p k n, In (OGet p k, RLabel n) log -> exists b, nth_error (w_nodes w) k = Some b /\ label_of w p b = Some n.

Fixpoint run_log (w : world) (ops : list op) (log : list (op * out)) : world * list (op * out) :=
  match ops with
  | [] => (w, log)
  | o :: ops' => let '(w', r) := step w o in run_log w' ops' (log ++ [(o, r)])
  end.

Lemma run_log_inv ops : forall w log,
  PInv w -> Seen w log -> PInv (fst (run_log w ops log)) /\ Seen (fst (run_log w ops log)) (snd (run_log w ops log)).
Proof.
  induction ops as [|o ops IH]; intros w log HP HS; simpl; [auto|].
  destruct (step w o) as [w' r] eqn:E.
  apply IH.
  - change w' with (fst (w', r)). rewrite <- E. now apply step_PInv.
  - intros p k n Hin. apply in_app_or in Hin. destruct Hin as [Hin|Hin];
      [|simpl in Hin; destruct Hin as [Heq|[]]; injection Heq as Ho Hr; subst o r].
    + destruct (HS _ _ _ Hin) as (b & Hb & Hl). exists b. split.
      * change w' with (fst (w', r)). rewrite <- E. now apply step_nodes_prefix.
      * change w' with (fst (w', r)). rewrite <- E. now apply step_label_stable.
    + destruct (step_get_recorded _ _ _ _ _ E) as (b & Hb & Hl). exists b. split; [|assumption].
      change w' with (fst (w', RLabel n)). rewrite <- E. now apply step_nodes_prefix.
Qed.

Lemma PInv_world0 : PInv world0.
Proof. split; constructor. Qed.

(* For every schedule of atomic steps: two label lookups on one provider return the same label
   exactly when they were asked about the same node — from the first call on. *)
Theorem provider_function_injective ops w log p k1 k2 n1 n2 b1 b2 :
  run_log world0 ops [] = (w, log) ->
  In (OGet p k1, RLabel n1) log -> In (OGet p k2, RLabel n2) log ->
  nth_error (w_nodes w) k1 = Some b1 -> nth_error (w_nodes w) k2 = Some b2 ->
  (n1 = n2 <-> b1 = b2).
Proof.
  intros Hr H1 H2 Hb1 Hb2.
  destruct (run_log_inv ops world0 [] PInv_world0) as [HP HS]; [intros ? ? ? []|].
  rewrite Hr in HP, HS. simpl in HP, HS.
  destruct (HS _ _ _ H1) as (c1 & Hc1 & L1). destruct (HS _ _ _ H2) as (c2 & Hc2 & L2).
  rewrite Hb1 in Hc1. rewrite Hb2 in Hc2. injection Hc1 as <-. injection Hc2 as <-.
  split.
  - intros <-. eapply label_injective; eauto.
  - intros <-. congruence.
Qed.

(* ---------- UUID providers: distinct nodes get distinct draws ---------- *)
Definition ulabel_of (w : world) (p : nat) (b : bid) : option nat :=
  match nth_error (w_uprovs w) p with Some pr => assoc_bid b (u_known pr) | None => None end.

Lemma snd_injective_of_NoDup {A B} (l : list (A * B)) a a' v :
  NoDup (map snd l) -> In (a, v) l -> In (a', v) l -> a = a'.
Proof.
  induction l as [|[k x] l IH]; simpl; intros Hnd H1 H2; [contradiction|].
  inversion Hnd as [|? ? Hn Hnd']; subst.
  destruct H1 as [E1|H1], H2 as [E2|H2].
  - congruence.
  - injection E1 as Ek Ev. subst k x. exfalso. apply Hn. change v with (snd (a', v)). now apply in_map.
  - injection E2 as Ek Ev. subst k x. exfalso. apply Hn. change v with (snd (a, v)). now apply in_map.
  - now apply IH.
Qed.

Theorem ulabel_injective w p b b' k : PInv w -> ulabel_of w p b = Some k -> ulabel_of w p b' = Some k -> b = b'.
Proof.
  intros [_ HU]. unfold ulabel_of. destruct (nth_error (w_uprovs w) p) as [pr|] eqn:Ep; [|discriminate].
  rewrite Forall_forall in HU. apply nth_error_In in Ep. destruct (HU _ Ep) as (_ & N2 & _).
  intros H1 H2. apply assoc_bid_In in H1, H2. eapply snd_injective_of_NoDup; eauto.
Qed.

(* with an injective source of UUIDs (the crypto/rand assumption, a premise), labels are injective *)
Section UuidGen.
  Variable U : Type.
  Variable gen : nat -> nat -> U.            (* provider -> k-th draw -> value *)
  Hypothesis gen_inj : forall p k k', gen p k = gen p k' -> k = k'.
  Theorem uuid_labels_injective w p b b' k k' :
    PInv w -> ulabel_of w p b = Some k -> ulabel_of w p b' = Some k' -> gen p k = gen p k' -> b = b'.
  Proof. intros HP H1 H2 Hg. apply gen_inj in Hg. subst k'. eapply ulabel_injective; eauto. Qed.
End UuidGen.

(* ---------- mappers: one node -> one fresh node, distinct nodes -> distinct nodes ---------- *)
Definition MInv (w : world) : Prop := Forall (fun m => NoDup (map snd (m_known m))) (w_maps w).

Lemma step_MInv w o : WF w -> MInv w -> MInv (fst (step w o)).
Proof.
  intros HW HM. pose proof HW as (H1 & H2 & H3). unfold MInv in *.
  destruct o; simpl; auto.
  - destruct f as [i|]; [destruct (Nat.ltb i (length (w_facs w)))|]; simpl; auto;
      apply Forall_app; (split; [assumption|repeat constructor]).
  - destruct (fresh w f) as [[w' b]|] eqn:E; simpl; auto.
    apply fresh_spec in E as (_ & _ & _ & _ & _ & _ & _ & Hm & _). now rewrite Hm.
  - destruct (nth_error (w_sfacs w) sf) as [a|]; simpl; auto. destruct l; simpl; auto.
    destruct (fresh w (Some a)) as [[w' b]|] eqn:E; simpl; auto.
    apply fresh_spec in E as (_ & _ & _ & _ & _ & _ & _ & Hm & _). now rewrite Hm.
  - destruct (nth_error (w_sfacs w) sf) as [a|]; simpl; auto.
    destruct (fresh w (Some a)) as [[w' b]|] eqn:E; simpl; auto.
    apply fresh_spec in E as (_ & _ & _ & _ & _ & _ & _ & Hm & _). now rewrite Hm.
  - destruct (nth_error (w_provs w) p) as [pr|]; auto. destruct (nth_error (w_nodes w) k) as [b|]; auto.
    destruct (assoc_bid b (p_known pr)); simpl; auto.
  - destruct (nth_error (w_uprovs w) p) as [pr|]; auto. destruct (nth_error (w_nodes w) k) as [b|]; auto.
    destruct (assoc_bid b (u_known pr)); simpl; auto.
  - destruct (nth_error (w_maps w) m) as [mp|] eqn:Em; auto. destruct (nth_error (w_nodes w) k) as [b|]; auto.
    destruct (assoc_bid b (m_known mp)) eqn:Ea; simpl; auto.
    destruct (fresh w (match m_fac mp with O => None | S i => Some i end)) as [[w' b']|] eqn:E; simpl; auto.
    apply fresh_spec in E as (_ & _ & Hnew & _ & _ & _ & _ & Hm & _). rewrite Hm.
    apply Forall_set_nth; [assumption|]. simpl.
    rewrite Forall_forall in HM. pose proof (nth_error_In _ _ Em) as Hin. constructor; [|now apply HM].
    intros Hi. apply in_map_iff in Hi as ([x y] & Hy & Hi). simpl in Hy. subst y.
    rewrite Forall_forall in H3. specialize (H3 _ Hin). rewrite Forall_forall in H3. specialize (H3 _ Hi). simpl in H3.
    rewrite Forall_forall in H1. specialize (H1 _ H3). eapply Hnew; eauto.
Qed.

Definition mapped_of (w : world) (m : nat) (b : bid) : option bid :=
  match nth_error (w_maps w) m with Some mp => assoc_bid b (m_known mp) | None => None end.

Theorem mapper_injective w m b b' x : MInv w -> mapped_of w m b = Some x -> mapped_of w m b' = Some x -> b = b'.
Proof.
  unfold MInv, mapped_of. intros HM. destruct (nth_error (w_maps w) m) as [mp|] eqn:Em; [|discriminate].
  rewrite Forall_forall in HM. apply nth_error_In in Em. specialize (HM _ Em).
  intros H1 H2. apply assoc_bid_In in H1, H2. eapply snd_injective_of_NoDup; eauto.
Qed.

(* MapBlankNode answers with what the mapper holds afterwards, and never changes an earlier answer *)
Theorem mapper_recorded w m k w' x :
  step w (OMap m k) = (w', RNode x) ->
  exists b, nth_error (w_nodes w) k = Some b /\ mapped_of w' m b = Some x.
Proof.
  simpl. destruct (nth_error (w_maps w) m) as [mp|] eqn:Em; [|discriminate].
  destruct (nth_error (w_nodes w) k) as [b|]; [|discriminate].
  destruct (assoc_bid b (m_known mp)) eqn:Ea.
  - intros [= <- <-]. exists b. split; [reflexivity|]. unfold mapped_of, give. simpl. now rewrite Em.
  - destruct (fresh w (match m_fac mp with O => None | S i => Some i end)) as [[w1 b1]|] eqn:E; [|discriminate].
    intros [= <- <-]. exists b. split; [reflexivity|]. unfold mapped_of. simpl.
    apply fresh_spec in E as (_ & _ & _ & _ & _ & _ & _ & Hm & _). rewrite Hm.
    rewrite (nth_error_set_nth_eq _ _ _ _ Em). simpl. now rewrite bid_eqb_refl.
Qed.

Lemma run_from_all ops : forall w, WF w -> PInv w -> MInv w ->
  WF (fst (run_from w ops)) /\ PInv (fst (run_from w ops)) /\ MInv (fst (run_from w ops)).
Proof.
  induction ops as [|o ops IH]; intros w HW HP HM; simpl; [auto|].
  destruct (step w o) as [w' r] eqn:E. destruct (run_from w' ops) as [w'' rs] eqn:E2. simpl.
  change w'' with (fst (w'', rs)). rewrite <- E2.
  apply IH; change w' with (fst (w', r)); rewrite <- E; [now apply step_WF|now apply step_PInv|now apply step_MInv].
Qed.

Theorem run_invariants ops : WF (fst (run ops)) /\ PInv (fst (run ops)) /\ MInv (fst (run ops)).
Proof. apply run_from_all; [apply WF_world0|apply PInv_world0|constructor]. Qed.

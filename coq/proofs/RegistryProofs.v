(* RegistryProofs.v — type resolution does not depend on the iteration order of the extension map when the
   registered extensions are consistent; an explicit type or a media type or an extension is never overridden by what
   ranks below it. *)
From RK Require Import Base BaseFacts Registry.
From Coq Require Import Permutation.

Lemma prefix_comparable : forall (a b s : bytes), is_prefix a s = true -> is_prefix b s = true -> is_prefix a b = true \/ is_prefix b a = true.
Proof.
  induction a as [|x a IH]; intros b s Ha Hb; [left; reflexivity|].
  destruct b as [|y b]; [right; reflexivity|].
  destruct s as [|z s]; [discriminate|]. cbn [is_prefix] in *.
  apply andb_true_iff in Ha, Hb. destruct Ha as [Hx Ha], Hb as [Hy Hb].
  apply N.eqb_eq in Hx, Hy. subst. rewrite N.eqb_refl. cbn [andb]. eapply IH; eauto.
Qed.

Lemma ends_comparable a b s : ends_with s a = true -> ends_with s b = true -> ends_with b a = true \/ ends_with a b = true.
Proof. unfold ends_with. apply prefix_comparable. Qed.

Lemma by_ext_in : forall exts name c, by_ext exts name = Some c -> exists e, In (e, c) exts /\ ends_with name e = true.
Proof.
  induction exts as [|[e c0] t IH]; intros name c H; cbn [by_ext] in H; [discriminate|].
  destruct (ends_with name e) eqn:E.
  - inversion H; subst. exists e. split; [left; reflexivity|exact E].
  - destruct (IH _ _ H) as (e' & Hi & He). exists e'. split; [right; exact Hi|exact He].
Qed.

Lemma by_ext_none : forall exts name, by_ext exts name = None -> forall e c, In (e, c) exts -> ends_with name e = false.
Proof.
  induction exts as [|[e0 c0] t IH]; intros name H e c Hi; [destruct Hi|]. cbn [by_ext] in H.
  destruct (ends_with name e0) eqn:E; [discriminate|]. destruct Hi as [Hi|Hi]; [inversion Hi; subst; exact E|eapply IH; eauto].
Qed.

Lemma consistent_spec exts : exts_consistent exts = true ->
  forall e1 c1 e2 c2, In (e1, c1) exts -> In (e2, c2) exts -> ends_with e1 e2 = true -> c1 = c2.
Proof.
  unfold exts_consistent. rewrite forallb_forall. intros H e1 c1 e2 c2 H1 H2 E.
  specialize (H _ H1). rewrite forallb_forall in H. specialize (H _ H2). cbn [fst snd] in H.
  rewrite E in H. cbn in H. now apply beq_true_iff.
Qed.

(* every iteration order of the extension map gives the same answer *)
Theorem by_ext_order_independent exts exts' name :
  exts_consistent exts = true -> Permutation exts exts' -> by_ext exts' name = by_ext exts name.
Proof.
  intros Hc Hp.
  destruct (by_ext exts name) as [c|] eqn:A; destruct (by_ext exts' name) as [c'|] eqn:B; try reflexivity.
  - apply by_ext_in in A, B. destruct A as (e & Ie & Ee), B as (e' & Ie' & Ee').
    apply (Permutation_in _ (Permutation_sym Hp)) in Ie'.
    destruct (ends_comparable _ _ _ Ee Ee') as [X|X].
    + f_equal. eapply consistent_spec; [exact Hc|exact Ie'|exact Ie|exact X].
    + f_equal. symmetry. eapply consistent_spec; [exact Hc|exact Ie|exact Ie'|exact X].
  - apply by_ext_in in A. destruct A as (e & Ie & Ee).
    apply (Permutation_in _ Hp) in Ie. rewrite (by_ext_none _ _ B _ _ Ie) in Ee. discriminate.
  - apply by_ext_in in B. destruct B as (e & Ie & Ee).
    apply (Permutation_in _ (Permutation_sym Hp)) in Ie. rewrite (by_ext_none _ _ A _ _ Ie) in Ee. discriminate.
Qed.

Theorem resolve_decoder_order_independent r exts' t media fname magic :
  exts_consistent (r_exts r) = true -> Permutation (r_exts r) exts' ->
  resolve_decoder (Registry (r_aliases r) (r_decoders r) (r_encoders r) (r_media r) exts') t media fname magic
  = resolve_decoder r t media fname magic.
Proof.
  intros Hc Hp. unfold resolve_decoder, explicit. cbn [r_aliases r_decoders r_media r_exts].
  destruct fname as [n|]; [|reflexivity]. rewrite (by_ext_order_independent _ _ (lower n) Hc Hp). reflexivity.
Qed.

(* what ranks higher is never overridden *)
Theorem explicit_alias_wins r t c media fname magic :
  t <> [] -> lookup_b t (r_aliases r) = Some c -> resolve_decoder r t media fname magic = Some c.
Proof. intros Ht H. unfold resolve_decoder, explicit. destruct t; [congruence|]. rewrite H. reflexivity. Qed.

Theorem extension_beats_sniffing r name c magic :
  by_ext (r_exts r) (lower name) = Some c -> resolve_decoder r [] None (Some name) magic = Some c.
Proof. intros H. unfold resolve_decoder, explicit. rewrite H. reflexivity. Qed.

(* RelCurieProofs.v — relativisation and CURIE round trips *)
From RK Require Import Base BaseFacts Prefix PrefixProofs Iri3986 Relativize Curie.

Theorem relativize_sound b v r : relativize b v = Some r -> expand (b_orig b) r = v.
Proof.
  unfold relativize. destruct (relativize_candidate b v) as [c|]; [|discriminate].
  destruct (beq (expand (b_orig b) c) v) eqn:E; [|discriminate].
  intros [= <-]. now apply beq_true_iff.
Qed.

(* the non-empty spellings expand by plain RFC 3986 resolution *)
Theorem relativize_sound_rfc b v r : relativize b v = Some r -> r <> [] -> resolve (b_orig b) r = v.
Proof.
  intros H Hne. apply relativize_sound in H. destruct r; [congruence|exact H].
Qed.

(* a candidate that does not resolve back is withheld *)
Theorem relativize_none_honest b v c :
  relativize_candidate b v = Some c -> expand (b_orig b) c <> v -> relativize b v = None.
Proof.
  unfold relativize. intros -> Hne. apply beq_false_iff in Hne. now rewrite Hne.
Qed.

Lemma length_zero_beq (p : bytes) : Nat.eqb (length p) 0 = true -> p = [].
Proof. destruct p; simpl; [reflexivity|discriminate]. Qed.

Theorem curie_roundtrip s v :
  Inv (sc_pm s) -> pm_compact (sc_pm s) v <> None ->
  expand_curie s (compact_curie s v) = Some v.
Proof.
  intros HI Hc. unfold compact_curie, expand_curie.
  destruct (pm_compact (sc_pm s) v) as [[p r]|] eqn:E; [|congruence].
  destruct (compact_expand _ _ _ _ HI E) as [Hex _].
  destruct (beq p (sc_default s) && (negb (Nat.eqb (length p) 0) || sc_default_empty s)) eqn:T; cbn [cu_default cu_prefix cu_ref].
  - apply andb_true_iff in T as [T1 T2]. apply beq_true_iff in T1. subst p.
    rewrite T2. simpl. exact Hex.
  - simpl. exact Hex.
Qed.

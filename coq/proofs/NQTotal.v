(* NQTotal.v — the N-Triples / N-Quads decoder model never runs out of fuel, and every
   statement it emits (also before an error) is a well-formed RDF statement *)
From RK Require Import Base BaseFacts Utf8 Runes NQ.
Arguments uchar8_dec : simpl never.
Arguments uchar4_dec : simpl never.

(* ---------- consumption ---------- *)
Lemma iri_body_len_n n : forall inp dec raw v rest tr, length inp <= n ->
  iri_body inp dec raw = Ok v tr rest -> length rest < length inp.
Proof.
  induction n as [|n IHn]; intros inp dec raw v rest tr Hn.
  { destruct inp; [simpl; discriminate|simpl in Hn; lia]. }
  assert (IH : forall inp2 dec2 raw2 v2 rest2 tr2, length inp2 < length inp -> iri_body inp2 dec2 raw2 = Ok v2 tr2 rest2 -> length rest2 < length inp2)
    by (intros; eapply IHn; [lia|eassumption]).
  clear IHn. destruct inp as [|r0 inp']; simpl; [discriminate|].
  destruct (N.eqb (fst r0) 62); [intros [= _ _ <-]; simpl; lia|].
  destruct (N.eqb (fst r0) 92).
  - destruct inp' as [|r1 rest1]; [discriminate|].
    destruct (N.eqb (fst r1) 117).
    + destruct rest1 as [|a [|b [|c [|d rest2]]]]; try (destruct (uchar4_dec _); discriminate).
      destruct (hexv (fst a)), (hexv (fst b)), (hexv (fst c)), (hexv (fst d)); try discriminate.
      intros H. apply IH in H; simpl in *; lia.
    + destruct (N.eqb (fst r1) 85); [|discriminate].
      destruct rest1 as [|a [|b [|c [|d [|e [|f [|g [|h rest2]]]]]]]]; try (destruct (uchar8_dec _); discriminate).
      destruct (uchar8_dec [a; b; c; d; e; f; g; h]) as [[v0 ?] ? ?| | |]; try discriminate.
      intros H. apply IH in H; simpl in *; lia.
  - match goal with |- context [if ?c then Bad else iri_body _ _ _] => destruct c end; [discriminate|].
    intros H. apply IH in H; simpl in *; lia.
Qed.
Lemma iri_body_len inp dec raw v rest tr : iri_body inp dec raw = Ok v tr rest -> length rest < length inp.
Proof. apply (iri_body_len_n (length inp)). lia. Qed.

Lemma lit_body_len_n n : forall inp dec raw v rest tr, length inp <= n ->
  lit_body inp dec raw = Ok v tr rest -> length rest < length inp.
Proof.
  induction n as [|n IHn]; intros inp dec raw v rest tr Hn.
  { destruct inp; [simpl; discriminate|simpl in Hn; lia]. }
  assert (IH : forall inp2 dec2 raw2 v2 rest2 tr2, length inp2 < length inp -> lit_body inp2 dec2 raw2 = Ok v2 tr2 rest2 -> length rest2 < length inp2)
    by (intros; eapply IHn; [lia|eassumption]).
  clear IHn. destruct inp as [|r0 inp']; simpl; [discriminate|].
  destruct (N.eqb (fst r0) 34); [intros [= _ _ <-]; simpl; lia|].
  destruct (N.eqb (fst r0) 92).
  - destruct inp' as [|r1 rest1]; [discriminate|].
    destruct (N.eqb (fst r1) 117).
    + destruct rest1 as [|a [|b [|c [|d rest2]]]]; try (destruct (uchar4_dec _); discriminate).
      destruct (hexv (fst a)), (hexv (fst b)), (hexv (fst c)), (hexv (fst d)); try discriminate.
      intros H. apply IH in H; simpl in *; lia.
    + destruct (N.eqb (fst r1) 85).
      * destruct rest1 as [|a [|b [|c [|d [|e [|f [|g [|h rest2]]]]]]]]; try (destruct (uchar8_dec _); discriminate).
        destruct (uchar8_dec [a; b; c; d; e; f; g; h]) as [[v0 ?] ? ?| | |]; try discriminate.
        intros H. apply IH in H; simpl in *; lia.
      * repeat match goal with |- context [if N.eqb (fst r1) ?c then _ else _] => destruct (N.eqb (fst r1) c) end;
          try discriminate; intros H; apply IH in H; simpl in *; lia.
  - intros H. apply IH in H; simpl in *; lia.
Qed.
Lemma lit_body_len inp dec raw v rest tr : lit_body inp dec raw = Ok v tr rest -> length rest < length inp.
Proof. apply (lit_body_len_n (length inp)). lia. Qed.

Lemma open_iri_len lt inp v ps rest : open_iri lt inp = POk v ps rest -> length rest < length inp.
Proof.
  unfold open_iri. destruct (iri_body inp [] [lt]) as [[dec raw] tr r| | |] eqn:E; try discriminate.
  destruct (is_absolute _); [|discriminate]. intros [= _ _ <-]. eapply iri_body_len; eauto.
Qed.

Lemma lang_secondary_len inp : forall acc v tr rest, lang_secondary inp acc = Ok v tr rest -> length rest <= length inp.
Proof.
  induction inp as [|r0 inp IH]; intros acc v tr rest; simpl; [discriminate|].
  destruct (is_alnum (fst r0)); [intros H; apply IH in H; lia|].
  destruct (N.eqb (fst r0) 45).
  - destruct acc as [|l acc']; [discriminate|]. destruct (N.eqb (fst l) 45); [discriminate|]. intros H; apply IH in H; lia.
  - intros [= _ _ <-]. simpl. lia.
Qed.

Lemma lang_primary_len inp : forall acc v tr rest, lang_primary inp acc = Ok v tr rest -> length rest <= length inp.
Proof.
  induction inp as [|r0 inp IH]; intros acc v tr rest; simpl; [discriminate|].
  destruct (is_alpha (fst r0)); [intros H; apply IH in H; lia|].
  destruct (N.eqb (fst r0) 45).
  - destruct acc; [discriminate|]. intros H. apply lang_secondary_len in H. lia.
  - intros [= _ _ <-]. simpl. lia.
Qed.

Lemma open_langtag_len a inp v ps rest : open_langtag a inp = POk v ps rest -> length rest <= length inp.
Proof.
  unfold open_langtag. destruct (lang_primary inp []) as [tag tr r| | |] eqn:E; try discriminate.
  destruct tag; [discriminate|]. destruct (last_is_dash _); [discriminate|]. intros [= _ _ <-].
  eapply lang_primary_len; eauto.
Qed.

Lemma open_literal_len qt inp t v ps rest : open_literal qt inp t = POk v ps rest -> length rest < length inp.
Proof.
  unfold open_literal. destruct (lit_body inp [] [qt]) as [[dec raw] tr r| | |] eqn:E; try discriminate.
  apply lit_body_len in E.
  destruct r as [|r0 rest1].
  - destruct t; [|discriminate]. intros [= _ _ <-]. simpl in *. lia.
  - destruct (N.eqb (fst r0) 64).
    + destruct (open_langtag r0 rest1) as [tag ps' rest2| |] eqn:E2; try discriminate.
      apply open_langtag_len in E2. intros [= _ _ <-]. simpl in *. lia.
    + destruct (N.eqb (fst r0) 94).
      * destruct rest1 as [|r1 rest2]; [discriminate|]. destruct (negb (N.eqb (fst r1) 94)); [discriminate|].
        destruct rest2 as [|r2 rest3]; [discriminate|]. destruct (negb (N.eqb (fst r2) 60)); [discriminate|].
        destruct (open_iri r2 rest3) as [dt ps' rest4| |] eqn:E2; try discriminate.
        destruct (beq dt rdf_langString || beq dt rdf_dirLangString); [discriminate|].
        apply open_iri_len in E2. intros [= _ _ <-]. simpl in *. lia.
      * intros [= _ _ <-]. simpl in *. lia.
Qed.

Lemma bnode_rest_len inp t : forall acc v tr rest, bnode_rest inp acc t = Ok v tr rest -> length rest <= length inp.
Proof.
  induction inp as [|r0 inp IH]; intros acc v tr rest; simpl; [destruct t; [intros [= _ _ <-]; simpl; lia|discriminate]|].
  destruct (pn_chars_nt (fst r0) || N.eqb (fst r0) 46); [intros H; apply IH in H; lia|].
  intros [= _ _ <-]. simpl. lia.
Qed.

Lemma open_bnode_len us colon inp t v ps rest : open_bnode us colon inp t = POk v ps rest -> length rest <= length inp.
Proof.
  unfold open_bnode. destruct inp as [|r0 inp']; [discriminate|].
  destruct (pn_chars_u_nt (fst r0) || is_digit (fst r0)); [|discriminate].
  destruct (bnode_rest inp' [r0] t) as [lab tr rest1| | |] eqn:E; try discriminate.
  apply bnode_rest_len in E.
  destruct (rev lab) as [|lastr before]; [discriminate|].
  destruct before as [|b0 before'].
  - intros [= _ _ <-]. simpl. lia.
  - destruct (N.eqb (fst lastr) 46).
    + destruct (rev (rev (b0 :: before'))) as [|l2 ?]; [discriminate|]. destruct (pn_chars_nt (fst l2)); [|discriminate].
      intros [= _ _ <-]. simpl. lia.
    + destruct (rev lab) as [|l2 ?]; [discriminate|]. destruct (pn_chars_nt (fst l2)); [|discriminate].
      intros [= _ _ <-]. simpl. lia.
Qed.

Lemma drain_line_len inp : forall acc cm rest, drain_line inp acc = (cm, Some rest) -> length rest < length inp.
Proof.
  induction inp as [|r0 inp IH]; intros acc cm rest; simpl; [discriminate|].
  destruct (N.eqb (fst r0) 10 || N.eqb (fst r0) 13); [intros [= _ <-]; lia|]. intros H. apply IH in H. lia.
Qed.

(* capture never runs out of fuel when given more fuel than input, and consumes at least one rune *)
Lemma capture_spec fuel : forall k inp t tr,
  length inp < fuel ->
  capture fuel k inp t tr <> Fuel /\
  forall v tr' rest, capture fuel k inp t tr = Ok v tr' rest -> length rest < length inp.
Proof.
  induction fuel as [|f IH]; intros k inp t tr Hl; [lia|].
  destruct inp as [|r0 rest0]; simpl; [split; [discriminate|intros; discriminate]|].
  simpl in Hl.
  destruct (N.eqb (fst r0) 60).
  { destruct (open_iri r0 rest0) as [i ps rest'| |] eqn:E; (split; [discriminate|]); intros v tr' rest H; try discriminate.
    injection H as _ _ <-. apply open_iri_len in E. lia. }
  destruct (N.eqb (fst r0) 95 && negb _).
  { destruct rest0 as [|r1 rest1]; [split; [discriminate|intros; discriminate]|].
    destruct (N.eqb (fst r1) 58); [|split; [discriminate|intros; discriminate]].
    destruct (open_bnode r0 r1 rest1 t) as [b ps rest'| |] eqn:E; (split; [discriminate|]); intros v tr' rest H; try discriminate.
    injection H as _ _ <-. apply open_bnode_len in E. simpl. lia. }
  destruct (N.eqb (fst r0) 34 && _).
  { destruct (open_literal r0 rest0 t) as [l ps rest'| |] eqn:E; (split; [discriminate|]); intros v tr' rest H; try discriminate.
    injection H as _ _ <-. apply open_literal_len in E. lia. }
  destruct (N.eqb (fst r0) 35).
  { destruct (drain_line rest0 [r0]) as [cm [rest'|]] eqn:E; [|split; [discriminate|intros; discriminate]].
    apply drain_line_len in E. destruct (IH k rest' t (tr ++ [CPlain cm])) as [H1 H2]; [lia|].
    split; [exact H1|]. intros v tr' rest H. apply H2 in H. simpl in *. lia. }
  destruct (is_space (fst r0)); [|split; [discriminate|intros; discriminate]].
  destruct (IH k rest0 t (tr ++ [CPlain [r0]])) as [H1 H2]; [lia|].
  split; [exact H1|]. intros v tr' rest H. apply H2 in H. simpl in *. lia.
Qed.

Lemma after_object_spec fuel : forall nq hg inp t tr,
  length inp < fuel ->
  after_object fuel nq hg inp t tr <> Fuel /\
  forall v tr' rest, after_object fuel nq hg inp t tr = Ok v tr' rest -> length rest < length inp.
Proof.
  induction fuel as [|f IH]; intros nq hg inp t tr Hl; [lia|].
  destruct inp as [|r0 rest0]; cbn [after_object]; [split; [discriminate|intros; discriminate]|].
  simpl in Hl.
  destruct (N.eqb (fst r0) 46); [split; [discriminate|intros v tr' rest [= _ _ <-]; simpl; lia]|].
  destruct (N.eqb (fst r0) 35).
  { destruct (drain_line rest0 [r0]) as [cm [rest'|]] eqn:E; [|split; [discriminate|intros; discriminate]].
    apply drain_line_len in E. destruct (IH nq hg rest' t (tr ++ [CPlain cm])) as [H1 H2]; [lia|].
    split; [exact H1|]. intros v tr' rest H. apply H2 in H. simpl in *. lia. }
  destruct (is_space (fst r0)).
  { destruct (IH nq hg rest0 t (tr ++ [CPlain [r0]])) as [H1 H2]; [lia|].
    split; [exact H1|]. intros v tr' rest H. apply H2 in H. simpl in *. lia. }
  destruct (nq && negb hg); [|split; [discriminate|intros; discriminate]].
  destruct (capture_spec (S (length (r0 :: rest0))) KGraph (r0 :: rest0) t []) as [C1 C2]; [lia|].
  destruct (capture (S (length (r0 :: rest0))) KGraph (r0 :: rest0) t []) as [g tr1 rest1| | |] eqn:E;
    try (split; [discriminate|intros; discriminate]); [|congruence].
  specialize (C2 _ _ _ eq_refl). simpl in C2.
  destruct (IH nq true rest1 t (tr ++ tr1)) as [H1 H2]; [lia|].
  destruct (after_object f nq true rest1 t (tr ++ tr1)) as [o tr2 rest2| | |] eqn:E2;
    try (split; [discriminate|intros; discriminate]); [|congruence].
  split; [discriminate|]. intros v tr' rest [= _ _ <-]. specialize (H2 _ _ _ eq_refl). simpl in *. lia.
Qed.

Lemma statement_spec nq inp t tr :
  statement nq inp t tr <> Fuel /\
  forall q tr' rest, statement nq inp t tr = Ok q tr' rest -> length rest < length inp.
Proof.
  unfold statement.
  destruct (capture_spec (S (length inp)) KSubject inp t tr) as [A1 A2]; [lia|].
  destruct (capture (S (length inp)) KSubject inp t tr) as [s tr1 r1| | |]; try (split; [discriminate|intros; discriminate]); [|congruence].
  specialize (A2 _ _ _ eq_refl).
  destruct (capture_spec (S (length inp)) KPredicate r1 t tr1) as [B1 B2]; [lia|].
  destruct (capture (S (length inp)) KPredicate r1 t tr1) as [p tr2 r2| | |]; try (split; [discriminate|intros; discriminate]); [|congruence].
  specialize (B2 _ _ _ eq_refl).
  destruct (capture_spec (S (length inp)) KObject r2 t tr2) as [C1 C2]; [lia|].
  destruct (capture (S (length inp)) KObject r2 t tr2) as [o tr3 r3| | |]; try (split; [discriminate|intros; discriminate]); [|congruence].
  specialize (C2 _ _ _ eq_refl).
  destruct (after_object_spec (S (length inp)) nq false r3 t tr3) as [D1 D2]; [lia|].
  destruct (after_object (S (length inp)) nq false r3 t tr3) as [g tr4 r4| | |]; try (split; [discriminate|intros; discriminate]); [|congruence].
  specialize (D2 _ _ _ eq_refl).
  split; [discriminate|]. intros q tr' rest [= _ _ <-]. lia.
Qed.

Lemma after_statement_spec fuel : forall inp t tr,
  length inp < fuel ->
  after_statement fuel inp t tr <> GFuel /\
  forall tr' rest, after_statement fuel inp t tr = GStart tr' rest -> length rest <= length inp.
Proof.
  induction fuel as [|f IH]; intros inp t tr Hl; [lia|].
  destruct inp as [|r0 rest0]; simpl; [destruct t; split; try discriminate; intros; discriminate|].
  simpl in Hl.
  destruct (N.eqb (fst r0) 35).
  { destruct (drain_line rest0 [r0]) as [cm [rest'|]] eqn:E.
    - apply drain_line_len in E. split; [discriminate|]. intros tr' rest [= _ <-]. lia.
    - destruct t; split; try discriminate; intros; discriminate. }
  destruct (N.eqb (fst r0) 13 || N.eqb (fst r0) 10); [split; [discriminate|intros tr' rest [= _ <-]; lia]|].
  destruct (is_space (fst r0)); [|split; [discriminate|intros; discriminate]].
  destruct (IH rest0 t (tr ++ [CPlain [r0]])) as [H1 H2]; [lia|].
  split; [exact H1|]. intros tr' rest H. apply H2 in H. simpl in *. lia.
Qed.

Lemma before_statement_spec fuel : forall inp t tr,
  length inp < fuel ->
  before_statement fuel inp t tr <> GFuel /\
  forall tr' rest, before_statement fuel inp t tr = GStart tr' rest -> length rest <= length inp.
Proof.
  induction fuel as [|f IH]; intros inp t tr Hl; [lia|].
  destruct inp as [|r0 rest0]; simpl; [destruct t; split; try discriminate; intros; discriminate|].
  simpl in Hl.
  destruct (N.eqb (fst r0) 35).
  { destruct (drain_line rest0 [r0]) as [cm [rest'|]] eqn:E.
    - apply drain_line_len in E. destruct (IH rest' t (tr ++ [CPlain cm])) as [H1 H2]; [lia|].
      split; [exact H1|]. intros tr' rest H. apply H2 in H. simpl in *. lia.
    - destruct t; split; try discriminate; intros; discriminate. }
  destruct (is_space (fst r0)).
  { destruct (IH rest0 t (tr ++ [CPlain [r0]])) as [H1 H2]; [lia|].
    split; [exact H1|]. intros tr' rest H. apply H2 in H. simpl in *. lia. }
  split; [discriminate|]. intros tr' rest [= _ <-]. simpl. lia.
Qed.

Lemma decode_loop_no_fuel fuel : forall nq first inp t,
  length inp < fuel -> snd (decode_loop fuel nq first inp t) <> VFuel.
Proof.
  induction fuel as [|f IH]; intros nq first inp t Hl; [lia|]. cbn [decode_loop].
  assert (Hg1 : (if first then GStart [] inp else after_statement (S (length inp)) inp t []) <> GFuel /\
                forall tr' rest, (if first then GStart [] inp else after_statement (S (length inp)) inp t []) = GStart tr' rest -> length rest <= length inp).
  { destruct first; [split; [discriminate|intros tr' rest [= _ <-]; lia]|]. apply after_statement_spec. lia. }
  destruct Hg1 as [G1 G2].
  destruct (if first then GStart [] inp else after_statement (S (length inp)) inp t []) as [tr1 r1| | | |];
    cbn [snd]; try discriminate; [|congruence].
  specialize (G2 _ _ eq_refl).
  destruct (before_statement_spec (S (length r1)) r1 t tr1) as [B1 B2]; [lia|].
  destruct (before_statement (S (length r1)) r1 t tr1) as [tr2 r2| | | |]; cbn [snd]; try discriminate; [|congruence].
  specialize (B2 _ _ eq_refl).
  destruct (statement_spec nq r2 t tr2) as [S1 S2].
  destruct (statement nq r2 t tr2) as [q tr3 r3| | |]; cbn [snd]; try discriminate; [| |congruence].
  - specialize (S2 _ _ _ eq_refl). specialize (IH nq false r3 t). destruct (decode_loop f nq false r3 t) as [l v]. cbn [snd] in *. apply IH. lia.
  - destruct t; discriminate.
Qed.

(* the decoder model always terminates with a verdict other than "out of fuel" *)
Theorem decode_total nq inp t : snd (decode nq inp t) <> VFuel.
Proof. unfold decode. apply decode_loop_no_fuel. lia. Qed.

(* ---------- well-formedness of every emitted statement ---------- *)
Definition wf_iri (i : runes) : Prop := is_absolute i = true.

Definition wf_lit (dt : runes) (lang : option runes) : Prop :=
  wf_iri dt /\
  match lang with
  | Some g => g <> [] /\ dt = rdf_langString
  | None => dt <> rdf_langString /\ dt <> rdf_dirLangString
  end.

Definition wf_subject (t : term) : Prop :=
  match t with TIri i => wf_iri i | TBlank l => l <> [] | TLit _ _ _ => False end.
Definition wf_predicate (t : term) : Prop :=
  match t with TIri i => wf_iri i | _ => False end.
Definition wf_object (t : term) : Prop :=
  match t with TIri i => wf_iri i | TBlank l => l <> [] | TLit _ dt lang => wf_lit dt lang end.

Definition wf_quad (nq : bool) (q : quad) : Prop :=
  wf_subject (q_s q) /\ wf_predicate (q_p q) /\ wf_object (q_o q) /\
  match q_g q with Some g => nq = true /\ wf_subject g | None => True end.

Lemma open_iri_wf lt inp v ps rest : open_iri lt inp = POk v ps rest -> wf_iri v.
Proof.
  unfold open_iri. destruct (iri_body inp [] [lt]) as [[dec raw] tr r| | |]; try discriminate.
  destruct (is_absolute (map sanitize dec)) eqn:E; [|discriminate]. intros [= <- _ _]. exact E.
Qed.

Lemma xsd_string_abs : is_absolute xsd_string = true. Proof. reflexivity. Qed.
Lemma langString_abs : is_absolute rdf_langString = true. Proof. reflexivity. Qed.

Lemma open_langtag_nonempty a inp v ps rest : open_langtag a inp = POk v ps rest -> v <> [].
Proof.
  unfold open_langtag. destruct (lang_primary inp []) as [tag tr r| | |]; try discriminate.
  destruct tag as [|x tag']; [discriminate|]. destruct (last_is_dash _); [discriminate|]. intros [= <- _ _]. discriminate.
Qed.

Lemma open_literal_wf qt inp t v ps rest : open_literal qt inp t = POk v ps rest -> wf_object v.
Proof.
  unfold open_literal. destruct (lit_body inp [] [qt]) as [[dec raw] tr r| | |]; try discriminate.
  assert (Hplain : wf_object (TLit (map sanitize dec) xsd_string None)).
  { simpl. split; [apply xsd_string_abs|]. split; discriminate. }
  destruct r as [|r0 rest1].
  - destruct t; [|discriminate]. intros [= <- _ _]. exact Hplain.
  - destruct (N.eqb (fst r0) 64).
    + destruct (open_langtag r0 rest1) as [tag ps' rest2| |] eqn:E2; try discriminate.
      intros [= <- _ _]. simpl. split; [apply langString_abs|]. split; [eapply open_langtag_nonempty; eauto|reflexivity].
    + destruct (N.eqb (fst r0) 94).
      * destruct rest1 as [|r1 rest2]; [discriminate|]. destruct (negb (N.eqb (fst r1) 94)); [discriminate|].
        destruct rest2 as [|r2 rest3]; [discriminate|]. destruct (negb (N.eqb (fst r2) 60)); [discriminate|].
        destruct (open_iri r2 rest3) as [dt ps' rest4| |] eqn:E2; try discriminate.
        destruct (beq dt rdf_langString || beq dt rdf_dirLangString) eqn:Ed; [discriminate|].
        intros [= <- _ _]. simpl. split; [eapply open_iri_wf; eauto|].
        apply orb_false_iff in Ed as [E1 E3]. apply beq_false_iff in E1, E3. auto.
      * intros [= <- _ _]. exact Hplain.
Qed.

Lemma open_bnode_wf us colon inp t v ps rest : open_bnode us colon inp t = POk v ps rest -> exists l, v = TBlank l /\ l <> [].
Proof.
  unfold open_bnode. destruct inp as [|r0 inp']; [discriminate|].
  destruct (pn_chars_u_nt (fst r0) || is_digit (fst r0)); [|discriminate].
  destruct (bnode_rest inp' [r0] t) as [lab tr rest1| | |] eqn:E; try discriminate.
  destruct (rev lab) as [|lastr before] eqn:Er; [discriminate|].
  assert (Hlab : lab <> []) by (intros ->; discriminate).
  destruct before as [|b0 before'].
  - intros [= <- _ _]. exists (map fst lab). split; [reflexivity|]. destruct lab; [congruence|discriminate].
  - destruct (N.eqb (fst lastr) 46).
    + destruct (rev (rev (b0 :: before'))) as [|l2 ?] eqn:E2; [discriminate|]. destruct (pn_chars_nt (fst l2)); [|discriminate].
      intros [= <- _ _]. exists (map fst (rev (b0 :: before'))). split; [reflexivity|].
      destruct (rev (b0 :: before')) eqn:E3; [simpl in E2; discriminate|discriminate].
    + destruct (rev lab) as [|l2 ?]; [discriminate|]. destruct (pn_chars_nt (fst l2)); [|discriminate].
      intros [= <- _ _]. exists (map fst lab). split; [reflexivity|]. destruct lab; [congruence|discriminate].
Qed.

Definition wf_at (k : pos_kind) (t : term) : Prop :=
  match k with KSubject | KGraph => wf_subject t | KPredicate => wf_predicate t | KObject => wf_object t end.

Lemma capture_wf fuel : forall k inp t tr v tr' rest, capture fuel k inp t tr = Ok v tr' rest -> wf_at k v.
Proof.
  induction fuel as [|f IH]; intros k inp t tr v tr' rest; [discriminate|].
  destruct inp as [|r0 rest0]; simpl; [discriminate|].
  destruct (N.eqb (fst r0) 60).
  { destruct (open_iri r0 rest0) as [i ps rest'| |] eqn:E; try discriminate. intros [= <- _ _].
    apply open_iri_wf in E. destruct k; exact E. }
  destruct (N.eqb (fst r0) 95 && negb _) eqn:Eb.
  { destruct rest0 as [|r1 rest1]; [discriminate|]. destruct (N.eqb (fst r1) 58); [|discriminate].
    destruct (open_bnode r0 r1 rest1 t) as [b ps rest'| |] eqn:E; try discriminate. intros [= <- _ _].
    apply open_bnode_wf in E as (l & -> & Hl). apply andb_true_iff in Eb as [_ Ek].
    destruct k; simpl in *; try exact Hl; discriminate. }
  destruct (N.eqb (fst r0) 34 && _) eqn:El.
  { destruct (open_literal r0 rest0 t) as [l ps rest'| |] eqn:E; try discriminate. intros [= <- _ _].
    apply open_literal_wf in E. apply andb_true_iff in El as [_ Ek]. destruct k; try discriminate. exact E. }
  destruct (N.eqb (fst r0) 35).
  { destruct (drain_line rest0 [r0]) as [cm [rest'|]]; [|discriminate]. apply IH. }
  destruct (is_space (fst r0)); [apply IH|discriminate].
Qed.

Lemma after_object_wf fuel : forall nq hg inp t tr v tr' rest,
  after_object fuel nq hg inp t tr = Ok v tr' rest ->
  match v with Some g => nq = true /\ wf_subject g | None => True end.
Proof.
  induction fuel as [|f IH]; intros nq hg inp t tr v tr' rest; [discriminate|].
  destruct inp as [|r0 rest0]; cbn [after_object]; [discriminate|].
  destruct (N.eqb (fst r0) 46); [intros [= <- _ _]; exact I|].
  destruct (N.eqb (fst r0) 35).
  { destruct (drain_line rest0 [r0]) as [cm [rest'|]]; [|discriminate]. apply IH. }
  destruct (is_space (fst r0)); [apply IH|].
  destruct (nq && negb hg) eqn:En; [|discriminate].
  destruct (capture (S (length (r0 :: rest0))) KGraph (r0 :: rest0) t []) as [g tr1 rest1| | |] eqn:E; try discriminate.
  destruct (after_object f nq true rest1 t (tr ++ tr1)) as [o tr2 rest2| | |]; try discriminate.
  intros [= <- _ _]. apply capture_wf in E. apply andb_true_iff in En as [-> _]. split; [reflexivity|exact E].
Qed.

Lemma statement_wf nq inp t tr q tr' rest : statement nq inp t tr = Ok q tr' rest -> wf_quad nq q.
Proof.
  unfold statement.
  destruct (capture (S (length inp)) KSubject inp t tr) as [s tr1 r1| | |] eqn:E1; try discriminate.
  destruct (capture (S (length inp)) KPredicate r1 t tr1) as [p tr2 r2| | |] eqn:E2; try discriminate.
  destruct (capture (S (length inp)) KObject r2 t tr2) as [o tr3 r3| | |] eqn:E3; try discriminate.
  destruct (after_object (S (length inp)) nq false r3 t tr3) as [g tr4 r4| | |] eqn:E4; try discriminate.
  intros [= <- _ _]. unfold wf_quad. simpl.
  apply capture_wf in E1, E2, E3. apply after_object_wf in E4. auto.
Qed.

Lemma decode_loop_wf fuel : forall nq first inp t, Forall (fun s => wf_quad nq (st_quad s)) (fst (decode_loop fuel nq first inp t)).
Proof.
  induction fuel as [|f IH]; intros nq first inp t; [constructor|]. cbn [decode_loop].
  destruct (if first then GStart [] inp else after_statement (S (length inp)) inp t []) as [tr1 r1| | | |]; try constructor.
  destruct (before_statement (S (length r1)) r1 t tr1) as [tr2 r2| | | |]; try constructor.
  destruct (statement nq r2 t tr2) as [q tr3 r3| | |] eqn:E; try constructor.
  specialize (IH nq false r3 t). destruct (decode_loop f nq false r3 t) as [l v]. simpl in *.
  constructor; [simpl; eapply statement_wf; eauto|exact IH].
Qed.

(* every statement the decoder emits, on any input and also before an error, is well-formed *)
Theorem decode_wf nq inp t : Forall (fun s => wf_quad nq (st_quad s)) (fst (decode nq inp t)).
Proof. apply decode_loop_wf. Qed.

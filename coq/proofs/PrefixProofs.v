(* PrefixProofs.v — invariant, refinement and longest-match lemmas for model/Prefix.v *)
From RK Require Import Base BaseFacts Prefix.
From Coq Require Import Permutation Sorted.

Definition keys (l : list mapping) := map pfx l.
Arguments add_one : simpl never.

(* ---------- lookup ---------- *)
Lemma lookup_Some_In k l m : lookup k l = Some m -> In m l /\ pfx m = k.
Proof.
  induction l as [|x l IH]; simpl; [discriminate|].
  destruct (beq (pfx x) k) eqn:E.
  - intros [= <-]. apply beq_true_iff in E. auto.
  - intros H. destruct (IH H). auto.
Qed.

Lemma lookup_None_iff k l : lookup k l = None <-> ~ In k (keys l).
Proof.
  induction l as [|x l IH]; simpl; [tauto|].
  destruct (beq (pfx x) k) eqn:E.
  - apply beq_true_iff in E. split; [discriminate|]. intros H. exfalso. apply H. auto.
  - apply beq_false_iff in E. rewrite IH. tauto.
Qed.

Lemma lookup_spec k l m :
  NoDup (keys l) -> (lookup k l = Some m <-> In m l /\ pfx m = k).
Proof.
  intros Hnd. split; [apply lookup_Some_In|].
  induction l as [|x l IH]; simpl; intros [Hin Hk]; [contradiction|].
  inversion Hnd as [|? ? Hx Hnd']; subst.
  destruct Hin as [->|Hin].
  - now rewrite beq_refl.
  - destruct (beq (pfx x) (pfx m)) eqn:E.
    + apply beq_true_iff in E. exfalso. apply Hx. rewrite E. now apply in_map.
    + auto.
Qed.

Lemma lookup_same_elements k l l' :
  NoDup (keys l) -> NoDup (keys l') -> (forall m, In m l <-> In m l') ->
  lookup k l = lookup k l'.
Proof.
  intros H1 H2 Hin.
  destruct (lookup k l) as [m|] eqn:E.
  - symmetry. apply lookup_spec; [assumption|]. apply lookup_spec in E; [|assumption].
    destruct E. split; [apply Hin|]; assumption.
  - destruct (lookup k l') as [m'|] eqn:E'; [|reflexivity].
    apply lookup_spec in E'; [|assumption]. destruct E' as [Hi Hk].
    apply Hin in Hi. assert (lookup k l = Some m') by (apply lookup_spec; auto). congruence.
Qed.

(* ---------- assoc_set / replace_first / assoc_del ---------- *)
Lemma keys_assoc_set_in m l : In (pfx m) (keys l) -> keys (assoc_set m l) = keys l.
Proof.
  induction l as [|x l IH]; simpl; [contradiction|].
  destruct (beq (pfx x) (pfx m)) eqn:E; simpl.
  - apply beq_true_iff in E. now rewrite E.
  - apply beq_false_iff in E. intros [H|H]; [congruence|]. now rewrite IH.
Qed.

Lemma keys_assoc_set_notin m l : ~ In (pfx m) (keys l) -> keys (assoc_set m l) = keys l ++ [pfx m].
Proof.
  induction l as [|x l IH]; simpl; [reflexivity|].
  intros H. destruct (beq (pfx x) (pfx m)) eqn:E; simpl.
  - apply beq_true_iff in E. tauto.
  - rewrite IH; tauto.
Qed.

Lemma replace_first_eq_assoc_set m l : In (pfx m) (keys l) -> replace_first m l = assoc_set m l.
Proof.
  induction l as [|x l IH]; simpl; [contradiction|].
  destruct (beq (pfx x) (pfx m)) eqn:E; [reflexivity|].
  apply beq_false_iff in E. intros [H|H]; [congruence|]. now rewrite IH.
Qed.

Lemma NoDup_keys_assoc_set m l : NoDup (keys l) -> NoDup (keys (assoc_set m l)).
Proof.
  intros H. destruct (in_dec (list_eq_dec N.eq_dec) (pfx m) (keys l)) as [Hi|Hi].
  - now rewrite keys_assoc_set_in.
  - rewrite keys_assoc_set_notin by assumption.
    apply Permutation_NoDup with (l := pfx m :: keys l).
    + apply Permutation_cons_append.
    + now constructor.
Qed.

Lemma In_assoc_set x m l :
  NoDup (keys l) ->
  (In x (assoc_set m l) <-> x = m \/ (In x l /\ pfx x <> pfx m)).
Proof.
  induction l as [|y l IH]; simpl; intros Hnd.
  - split; [intros [<-|[]]; auto | intros [->|[[] _]]; auto].
  - inversion Hnd as [|? ? Hy Hnd']; subst.
    destruct (beq (pfx y) (pfx m)) eqn:E; simpl.
    + apply beq_true_iff in E. split.
      * intros [<-|H]; [auto|]. right. split; [auto|]. intros Hx. apply Hy. rewrite E, <- Hx. now apply in_map.
      * intros [->|[[<-|H] Hne]]; [auto|congruence|auto].
    + apply beq_false_iff in E. rewrite IH by assumption. split.
      * intros [<-|[->|[H Hne]]]; auto.
      * intros [->|[[<-|H] Hne]]; auto.
Qed.

Lemma lookup_assoc_set k m l :
  lookup k (assoc_set m l) = if beq (pfx m) k then Some m else lookup k l.
Proof.
  induction l as [|x l IH]; simpl.
  - destruct (beq (pfx m) k); reflexivity.
  - destruct (beq (pfx x) (pfx m)) eqn:E; simpl.
    + apply beq_true_iff in E. rewrite E. destruct (beq (pfx m) k); reflexivity.
    + rewrite IH. destruct (beq (pfx m) k) eqn:E2; [|reflexivity].
      apply beq_true_iff in E2. subst k. now rewrite E.
Qed.

Lemma keys_assoc_del_incl k l x : In x (keys (assoc_del k l)) -> In x (keys l).
Proof.
  induction l as [|y l IH]; simpl; [auto|].
  destruct (beq (pfx y) k); simpl; [auto|]. intros [H|H]; auto.
Qed.

Lemma NoDup_keys_assoc_del k l : NoDup (keys l) -> NoDup (keys (assoc_del k l)).
Proof.
  induction l as [|y l IH]; simpl; intros H; [constructor|].
  inversion H as [|? ? Hy Hnd]; subst.
  destruct (beq (pfx y) k); simpl; [assumption|].
  constructor; [|auto]. intros Hi. apply Hy. eapply keys_assoc_del_incl; eauto.
Qed.

Lemma lookup_assoc_del k0 k l :
  NoDup (keys l) ->
  lookup k (assoc_del k0 l) = if beq k0 k then None else lookup k l.
Proof.
  induction l as [|y l IH]; simpl; intros Hnd.
  - destruct (beq k0 k); reflexivity.
  - inversion Hnd as [|? ? Hy Hnd']; subst.
    destruct (beq (pfx y) k0) eqn:E; simpl.
    + apply beq_true_iff in E. subst k0.
      destruct (beq (pfx y) k) eqn:E2; [|reflexivity].
      apply beq_true_iff in E2. subst k. now apply lookup_None_iff.
    + rewrite IH by assumption.
      destruct (beq k0 k) eqn:E2.
      * apply beq_true_iff in E2. subst k. now rewrite E.
      * reflexivity.
Qed.

(* ---------- per-manager invariant ---------- *)
Definition ge_len (a b : mapping) : Prop := len_ge a b = true.

Record Inv0 (p : pm) : Prop := {
  inv_nd_ord : NoDup (keys (ordered p));
  inv_nd_byp : NoDup (keys (byp p));
  inv_same : forall m, In m (ordered p) <-> In m (byp p)
}.

Record Inv (p : pm) : Prop := {
  inv0 : Inv0 p;
  inv_sorted : StronglySorted ge_len (ordered p)
}.

Definition abs (p : pm) : smap := fun k => option_map ns (lookup k (byp p)).

Lemma Inv_empty : Inv pm_empty.
Proof. repeat constructor; simpl; tauto. Qed.

Lemma Inv0_lookup p k : Inv0 p -> lookup k (ordered p) = lookup k (byp p).
Proof. intros [H1 H2 H3]. now apply lookup_same_elements. Qed.

Lemma add_one_Inv0 p b m : Inv0 p -> Inv0 (fst (add_one (p, b) m)).
Proof.
  intros [H1 H2 H3]. unfold add_one.
  destruct (lookup (pfx m) (byp p)) as [prev|] eqn:E.
  - destruct (beq (ns prev) (ns m)); simpl; [now constructor|].
    assert (Hk : In (pfx m) (keys (byp p))).
    { apply lookup_Some_In in E as [Hi Hk]. rewrite <- Hk. now apply in_map. }
    assert (Hk' : In (pfx m) (keys (ordered p))).
    { apply lookup_Some_In in E as [Hi Hk0]. rewrite <- Hk0. apply in_map. now apply H3. }
    rewrite replace_first_eq_assoc_set by assumption.
    constructor; simpl.
    + now apply NoDup_keys_assoc_set.
    + now apply NoDup_keys_assoc_set.
    + intros x. rewrite !In_assoc_set by assumption. now rewrite H3.
  - simpl. apply lookup_None_iff in E.
    assert (E' : ~ In (pfx m) (keys (ordered p))).
    { intros Hi. apply E. apply in_map_iff in Hi as [x [Hx Hi]]. rewrite <- Hx. apply in_map. now apply H3. }
    constructor; simpl.
    + unfold keys. rewrite map_app. simpl.
      apply Permutation_NoDup with (l := pfx m :: keys (ordered p)); [apply Permutation_cons_append|].
      now constructor.
    + now apply NoDup_keys_assoc_set.
    + intros x. rewrite In_assoc_set by assumption. rewrite in_app_iff. simpl. rewrite H3.
      split.
      * intros [H|[<-|[]]]; [|auto]. right. split; [assumption|]. intros Hx. apply E. rewrite <- Hx. now apply in_map.
      * intros [->|[H _]]; auto.
Qed.

Lemma add_one_abs p b m k :
  abs (fst (add_one (p, b) m)) k = sm_set (abs p) m k.
Proof.
  unfold add_one, abs, sm_set.
  destruct (lookup (pfx m) (byp p)) as [prev|] eqn:E.
  - destruct (beq (ns prev) (ns m)) eqn:E2; simpl.
    + destruct (beq (pfx m) k) eqn:E3; [|reflexivity].
      apply beq_true_iff in E3. subst k. rewrite E. simpl. apply beq_true_iff in E2. now rewrite E2.
    + rewrite lookup_assoc_set. destruct (beq (pfx m) k); reflexivity.
  - simpl. rewrite lookup_assoc_set. destruct (beq (pfx m) k); reflexivity.
Qed.

Lemma add_one_flag_false p b m :
  snd (add_one (p, b) m) = false -> fst (add_one (p, b) m) = p /\ b = false.
Proof.
  unfold add_one. destruct (lookup (pfx m) (byp p)) as [prev|].
  - destruct (beq (ns prev) (ns m)); simpl; [auto|discriminate].
  - simpl. discriminate.
Qed.

Lemma fold_add_one_Inv0 ms p b : Inv0 p -> Inv0 (fst (fold_left add_one ms (p, b))).
Proof.
  revert p b. induction ms as [|m ms IH]; intros p b H; cbn [fold_left]; [assumption|].
  destruct (add_one (p, b) m) as [p' b'] eqn:E.
  apply IH. change p' with (fst (p', b')). rewrite <- E. now apply add_one_Inv0.
Qed.

Lemma fold_add_one_abs ms p b k :
  abs (fst (fold_left add_one ms (p, b))) k = fold_left sm_set ms (abs p) k.
Proof.
  revert p b. induction ms as [|m ms IH]; intros p b; cbn [fold_left]; [reflexivity|].
  destruct (add_one (p, b) m) as [p' b'] eqn:E.
  rewrite IH.
  assert (Hext : forall s s', (forall k, s k = s' k) -> forall k, fold_left sm_set ms s k = fold_left sm_set ms s' k).
  { clear. induction ms as [|m ms IH]; intros s s' H k; simpl; [apply H|].
    apply IH. intros k'. unfold sm_set. destruct (beq (pfx m) k'); [reflexivity|apply H]. }
  apply Hext. intros k'. change p' with (fst (p', b')). rewrite <- E. apply add_one_abs.
Qed.

Lemma fold_add_one_flag_false ms p b :
  snd (fold_left add_one ms (p, b)) = false -> fst (fold_left add_one ms (p, b)) = p.
Proof.
  revert p b. induction ms as [|m ms IH]; intros p b; cbn [fold_left]; [reflexivity|].
  destruct (add_one (p, b) m) as [p' b'] eqn:E. intros H.
  pose proof (IH p' b' H) as H1. rewrite H1.
  assert (Hb' : b' = false).
  { clear -H. revert p' b' H. induction ms as [|m ms IH]; intros p' b' H; simpl in H; [assumption|].
    destruct (add_one (p', b') m) as [p'' b''] eqn:E. apply IH in H. subst b''.
    pose proof (add_one_flag_false p' b' m) as H2. rewrite E in H2. simpl in H2. now apply H2. }
  subst b'. pose proof (add_one_flag_false p b m) as H2. rewrite E in H2. simpl in H2. now apply H2.
Qed.

Lemma len_ge_total a b : len_ge a b = true \/ len_ge b a = true.
Proof. unfold len_ge. destruct (Nat.leb_spec (length (ns b)) (length (ns a))); [auto|]. right. apply Nat.leb_le. lia. Qed.

Lemma len_ge_trans a b c : len_ge a b = true -> len_ge b c = true -> len_ge a c = true.
Proof. unfold len_ge. rewrite !Nat.leb_le. lia. Qed.

Lemma pm_add_Inv p ms : Inv p -> Inv (pm_add p ms).
Proof.
  intros [H0 Hs]. unfold pm_add.
  destruct (fold_left add_one ms (p, false)) as [p' added] eqn:E.
  assert (H0' : Inv0 p') by (change p' with (fst (p', added)); rewrite <- E; now apply fold_add_one_Inv0).
  destruct added.
  - destruct H0' as [H1 H2 H3]. constructor; [constructor|]; simpl.
    + eapply Permutation_NoDup; [|exact H1]. apply Permutation_map. apply isort_perm.
    + assumption.
    + intros m. rewrite <- H3. split; apply Permutation_in; [symmetry|]; apply isort_perm.
    + apply isort_sorted; [apply len_ge_total|apply len_ge_trans].
  - assert (p' = p).
    { change p' with (fst (p', false)). rewrite <- E. apply fold_add_one_flag_false. now rewrite E. }
    subst p'. now constructor.
Qed.

Lemma pm_add_abs p ms k : Inv p -> abs (pm_add p ms) k = fold_left sm_set ms (abs p) k.
Proof.
  intros _. unfold pm_add.
  destruct (fold_left add_one ms (p, false)) as [p' added] eqn:E.
  rewrite <- (fold_add_one_abs ms p false k). rewrite E. simpl.
  destruct added; reflexivity.
Qed.

(* ---------- delete ---------- *)
Lemma fold_del_one_nd ks b d : NoDup (keys b) -> NoDup (keys (fst (fold_left del_one ks (b, d)))).
Proof.
  revert b d. induction ks as [|k ks IH]; intros b d H; simpl; [assumption|].
  destruct (lookup k b); apply IH; [now apply NoDup_keys_assoc_del|assumption].
Qed.

Lemma fold_del_one_lookup ks b d k :
  NoDup (keys b) ->
  option_map ns (lookup k (fst (fold_left del_one ks (b, d)))) =
  fold_left sm_del ks (fun k => option_map ns (lookup k b)) k.
Proof.
  revert b d. induction ks as [|k0 ks IH]; intros b d H; simpl; [reflexivity|].
  assert (Hext : forall s s', (forall k, s k = s' k) -> forall k, fold_left sm_del ks s k = fold_left sm_del ks s' k).
  { clear. induction ks as [|m ks IH]; intros s s' H k; simpl; [apply H|].
    apply IH. intros k'. unfold sm_del. destruct (beq m k'); [reflexivity|apply H]. }
  destruct (lookup k0 b) as [m0|] eqn:E.
  - rewrite IH by (now apply NoDup_keys_assoc_del). apply Hext. intros k'.
    rewrite lookup_assoc_del by assumption. unfold sm_del. destruct (beq k0 k'); reflexivity.
  - rewrite IH by assumption. apply Hext. intros k'. unfold sm_del.
    destruct (beq k0 k') eqn:E2; [|reflexivity]. apply beq_true_iff in E2. subst k'. now rewrite E.
Qed.

Lemma fold_del_one_incl ks b d m :
  In m (fst (fold_left del_one ks (b, d))) -> In m b.
Proof.
  revert b d. induction ks as [|k ks IH]; intros b d; simpl; [auto|].
  destruct (lookup k b).
  - intros H. apply IH in H. clear -H. induction b as [|y b IHb]; simpl in *; [auto|].
    destruct (beq (pfx y) k); simpl in *; [auto|]. destruct H; auto.
  - apply IH.
Qed.

Lemma fold_del_one_flag_false ks b d :
  snd (fold_left del_one ks (b, d)) = false -> fst (fold_left del_one ks (b, d)) = b.
Proof.
  revert b d. induction ks as [|k ks IH]; intros b d; simpl; [reflexivity|].
  destruct (lookup k b) eqn:E.
  - intros H. exfalso. clear -H.
    assert (forall ks b, snd (fold_left del_one ks (b, true)) = true).
    { clear. induction ks as [|k ks IH]; intros b; simpl; [reflexivity|]. destruct (lookup k b); apply IH. }
    rewrite H0 in H. discriminate.
  - apply IH.
Qed.

Lemma pm_del_Inv p ks : Inv p -> Inv (pm_del p ks).
Proof.
  intros [[H1 H2 H3] Hs]. unfold pm_del.
  destruct (fold_left del_one ks (byp p, false)) as [b' deleted] eqn:E.
  assert (Hnd : NoDup (keys b')) by (change b' with (fst (b', deleted)); rewrite <- E; now apply fold_del_one_nd).
  assert (Hincl : forall m, In m b' -> In m (byp p)).
  { intros m. change b' with (fst (b', deleted)). rewrite <- E. apply fold_del_one_incl. }
  destruct deleted.
  - constructor; [constructor|]; simpl.
    + unfold keys. clear -H1. induction (ordered p) as [|x l IH]; simpl; [constructor|].
      inversion H1; subst. destruct (lookup (pfx x) b'); simpl; [|auto].
      constructor; [|auto]. intros Hi. apply H2. apply in_map_iff in Hi as [y [Hy Hi]].
      apply filter_In in Hi as [Hi _]. rewrite <- Hy. now apply in_map.
    + assumption.
    + intros m. rewrite filter_In. split.
      * intros [Hi Hl]. destruct (lookup (pfx m) b') as [m'|] eqn:El; [|discriminate].
        apply lookup_Some_In in El as [Hi' Hk].
        assert (m' = m).
        { apply Hincl in Hi'. apply H3 in Hi.
          assert (lookup (pfx m) (byp p) = Some m) by (apply lookup_spec; auto).
          assert (lookup (pfx m) (byp p) = Some m') by (apply lookup_spec; auto). congruence. }
        now subst m'.
      * intros Hi. split; [apply H3; auto|].
        assert (lookup (pfx m) b' = Some m) by (apply lookup_spec; auto). now rewrite H.
    + clear -Hs. induction Hs as [|x l Hs IH Hf]; simpl; [constructor|].
      destruct (lookup (pfx x) b'); [|assumption].
      constructor; [assumption|]. apply Forall_forall. intros y Hy. apply filter_In in Hy as [Hy _].
      rewrite Forall_forall in Hf. auto.
  - constructor; [constructor|]; assumption.
Qed.

Lemma pm_del_abs p ks k : Inv p -> abs (pm_del p ks) k = fold_left sm_del ks (abs p) k.
Proof.
  intros [[H1 H2 H3] Hs]. unfold pm_del.
  destruct (fold_left del_one ks (byp p, false)) as [b' deleted] eqn:E.
  change (abs p) with (fun k => option_map ns (lookup k (byp p))).
  rewrite <- (fold_del_one_lookup ks (byp p) false k H2). rewrite E. unfold abs. simpl.
  destruct deleted; [reflexivity|].
  assert (b' = byp p).
  { change b' with (fst (b', false)). rewrite <- E. apply fold_del_one_flag_false. now rewrite E. }
  now subst b'.
Qed.

(* ---------- histories ---------- *)
Lemma Forall_upd {A} (P : A -> Prop) i f l :
  Forall P l -> (forall x, P x -> P (f x)) -> Forall P (upd i f l).
Proof.
  intros H Hf. revert i. induction H as [|x l Hx H IH]; intros i; destruct i; simpl; constructor; auto.
Qed.

Lemma pstep_Inv s o : Forall Inv s -> Forall Inv (pstep s o).
Proof.
  intros H. destruct o as [i ms|i ks|i]; simpl.
  - apply Forall_upd; [assumption|]. intros p. apply pm_add_Inv.
  - apply Forall_upd; [assumption|]. intros p. apply pm_del_Inv.
  - destruct (nth_error s i) as [p|] eqn:E; [|assumption].
    apply Forall_app. split; [assumption|]. constructor; [|constructor].
    rewrite Forall_forall in H. apply H. eapply nth_error_In; eauto.
Qed.

Theorem prun_Inv ops : Forall Inv (prun ops).
Proof.
  unfold prun.
  assert (H : Forall Inv [pm_empty]) by (constructor; [apply Inv_empty|constructor]).
  revert H. generalize [pm_empty]. induction ops as [|o ops IH]; intros s H; simpl; [assumption|].
  apply IH. now apply pstep_Inv.
Qed.

Definition refines (p : pm) (s : smap) : Prop := Inv p /\ forall k, abs p k = s k.

Lemma Forall2_upd {A B} (R : A -> B -> Prop) i f g l l' :
  Forall2 R l l' -> (forall x y, R x y -> R (f x) (g y)) -> Forall2 R (upd i f l) (upd i g l').
Proof.
  intros H Hf. revert i. induction H as [|x y l l' Hx H IH]; intros i; destruct i; simpl; constructor; auto.
Qed.

Lemma fold_sm_set_ext ms s s' : (forall k, s k = s' k) -> forall k, fold_left sm_set ms s k = fold_left sm_set ms s' k.
Proof.
  revert s s'. induction ms as [|m ms IH]; intros s s' H k; simpl; [apply H|].
  apply IH. intros k'. unfold sm_set. destruct (beq (pfx m) k'); [reflexivity|apply H].
Qed.
Lemma fold_sm_del_ext ms s s' : (forall k, s k = s' k) -> forall k, fold_left sm_del ms s k = fold_left sm_del ms s' k.
Proof.
  revert s s'. induction ms as [|m ms IH]; intros s s' H k; simpl; [apply H|].
  apply IH. intros k'. unfold sm_del. destruct (beq m k'); [reflexivity|apply H].
Qed.

Lemma pstep_refines s t o : Forall2 refines s t -> Forall2 refines (pstep s o) (sstep t o).
Proof.
  intros H. destruct o as [i ms|i ks|i]; simpl.
  - apply Forall2_upd; [assumption|]. intros p q [Hi Ha]. split; [now apply pm_add_Inv|].
    intros k. rewrite pm_add_abs by assumption. now apply fold_sm_set_ext.
  - apply Forall2_upd; [assumption|]. intros p q [Hi Ha]. split; [now apply pm_del_Inv|].
    intros k. rewrite pm_del_abs by assumption. now apply fold_sm_del_ext.
  - assert (Hn : forall i, match nth_error s i, nth_error t i with
                           | Some p, Some q => refines p q | None, None => True | _, _ => False end).
    { clear i. induction H as [|x y l l' Hx H IH]; intros [|i]; simpl; auto. apply IH. }
    specialize (Hn i). destruct (nth_error s i) as [p|], (nth_error t i) as [q|]; try contradiction; [|assumption].
    apply Forall2_app; [assumption|]. constructor; [assumption|constructor].
Qed.

Theorem prun_refines ops : Forall2 refines (prun ops) (srun ops).
Proof.
  unfold prun, srun.
  assert (H : Forall2 refines [pm_empty] [sm_empty]).
  { constructor; [|constructor]. split; [apply Inv_empty|]. intros k. reflexivity. }
  revert H. generalize [pm_empty] [sm_empty]. induction ops as [|o ops IH]; intros s t H; simpl; [assumption|].
  apply IH. now apply pstep_refines.
Qed.

(* ---------- compaction ---------- *)
Lemma compact_in_spec l v m r :
  StronglySorted ge_len l ->
  compact_in l v = Some (m, r) ->
  In m l /\ is_prefix (ns m) v = true /\ ns m ++ r = v /\
  forall m', In m' l -> is_prefix (ns m') v = true -> length (ns m') <= length (ns m).
Proof.
  induction 1 as [|x l Hs IH Hf]; simpl; [discriminate|].
  destruct (is_prefix (ns x) v) eqn:E.
  - intros [= <- <-]. repeat split; auto.
    + now apply is_prefix_app.
    + intros m' [<-|Hi] _; [lia|]. rewrite Forall_forall in Hf. specialize (Hf _ Hi).
      unfold ge_len, len_ge in Hf. now apply Nat.leb_le in Hf.
  - intros H. destruct (IH H) as (Hi & Hp & Ha & Hmax). repeat split; auto.
    intros m' [<-|Hi'] Hp'; [congruence|auto].
Qed.

Lemma compact_in_complete l v :
  (exists m, In m l /\ is_prefix (ns m) v = true) -> compact_in l v <> None.
Proof.
  induction l as [|x l IH]; simpl; intros [m [Hi Hp]]; [contradiction|].
  destruct (is_prefix (ns x) v) eqn:E; [discriminate|].
  destruct Hi as [->|Hi]; [congruence|]. apply IH. eauto.
Qed.

Theorem compact_expand p v k r :
  Inv p -> pm_compact p v = Some (k, r) ->
  pm_expand p k r = Some v /\
  forall m', In m' (ordered p) -> is_prefix (ns m') v = true -> length (ns m') + length r <= length v.
Proof.
  intros [[H1 H2 H3] Hs]. unfold pm_compact, pm_expand.
  destruct (compact_in (ordered p) v) as [[m r']|] eqn:E; [|discriminate].
  intros [= <- <-]. apply compact_in_spec in E as (Hi & Hp & Ha & Hmax); [|assumption].
  assert (Hl : lookup (pfx m) (byp p) = Some m) by (apply lookup_spec; [assumption|]; split; [now apply H3|reflexivity]).
  rewrite Hl. split; [now rewrite Ha|].
  intros m' Hi' Hp'. specialize (Hmax _ Hi' Hp'). rewrite <- Ha, app_length. lia.
Qed.

Theorem compact_none_honest p v :
  pm_compact p v = None -> forall m, In m (ordered p) -> is_prefix (ns m) v = false.
Proof.
  unfold pm_compact. destruct (compact_in (ordered p) v) as [[m r]|] eqn:E; [discriminate|].
  intros _ m Hi. destruct (is_prefix (ns m) v) eqn:Hp; [|reflexivity].
  exfalso. eapply compact_in_complete; eauto.
Qed.

(* what GetPrefixMappings returns is exactly the abstract map *)
Theorem ordered_is_map p s : refines p s ->
  forall k n, (exists m, In m (ordered p) /\ pfx m = k /\ ns m = n) <-> s k = Some n.
Proof.
  intros [[[H1 H2 H3] Hs] Ha] k n. rewrite <- Ha. unfold abs. split.
  - intros (m & Hi & Hk & Hn). apply H3 in Hi.
    assert (lookup k (byp p) = Some m) by (apply lookup_spec; auto). rewrite H. simpl. now rewrite Hn.
  - destruct (lookup k (byp p)) as [m|] eqn:E; simpl; [|discriminate]. intros [= <-].
    apply lookup_Some_In in E as [Hi Hk]. exists m. repeat split; auto. now apply H3.
Qed.

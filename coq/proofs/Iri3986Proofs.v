(* Iri3986Proofs.v — parse/print identity, dot-segment lemmas, resolution facts *)
From RK Require Import Base BaseFacts Iri3986.

Lemma span_app p l a b : span p l = (a, b) -> a ++ b = l.
Proof.
  revert a b. induction l as [|c l IH]; simpl; intros a b.
  - intros [= <- <-]. reflexivity.
  - destruct (p c).
    + destruct (span p l) as [a' b'] eqn:E. intros [= <- <-]. simpl. f_equal. now apply IH.
    + intros [= <- <-]. reflexivity.
Qed.

Lemma span_rest p l a b : span p l = (a, b) -> b = [] \/ exists c b', b = c :: b' /\ p c = false.
Proof.
  revert a b. induction l as [|c l IH]; simpl; intros a b.
  - intros [= <- <-]. auto.
  - destruct (p c) eqn:Ec.
    + destruct (span p l) as [a' b'] eqn:E. intros [= <- <-]. eapply IH; eauto.
    + intros [= <- <-]. right. eauto.
Qed.

Lemma span_all p l a b : span p l = (a, b) -> forallb p a = true.
Proof.
  revert a b. induction l as [|c l IH]; simpl; intros a b.
  - intros [= <- <-]. reflexivity.
  - destruct (p c) eqn:Ec.
    + destruct (span p l) as [a' b'] eqn:E. intros [= <- <-]. simpl. rewrite Ec. eapply IH; eauto.
    + intros [= <- <-]. reflexivity.
Qed.

(* ---------- recompose ∘ parse5 = id ---------- *)
Lemma split_scheme_spec s o r :
  split_scheme s = (o, r) -> (match o with Some x => x ++ [58%N] | None => [] end) ++ r = s.
Proof.
  unfold split_scheme. destruct (span (fun c => negb (is_gen4 c)) s) as [a b] eqn:E.
  apply span_app in E.
  destruct a as [|a0 a']; [intros [= <- <-]; reflexivity|].
  destruct b as [|b0 b']; [intros [= <- <-]; reflexivity|].
  destruct (N.eq_dec b0 58) as [->|Hne].
  - intros [= <- <-]. rewrite <- E. now rewrite <- app_assoc.
  - assert (H : (if N.eqb b0 58 then true else false) = false) by (destruct (N.eqb_spec b0 58); congruence).
    (* the pattern 58%N :: rest only matches b0 = 58 *)
    intros H0. revert H0.
    destruct b0 as [|p]; [intros [= <- <-]; reflexivity|].
    do 6 (destruct p as [p|p|]; try (intros [= <- <-]; reflexivity)); congruence.
Qed.

Lemma split_auth_spec s o r :
  split_auth s = (o, r) -> (match o with Some a => [47%N; 47%N] ++ a | None => [] end) ++ r = s.
Proof.
  unfold split_auth.
  destruct s as [|c1 s1]; [intros [= <- <-]; reflexivity|].
  destruct (N.eq_dec c1 47) as [->|Hne].
  - destruct s1 as [|c2 s2]; [intros [= <- <-]; reflexivity|].
    destruct (N.eq_dec c2 47) as [->|Hne2].
    + destruct (span (fun c => negb (is_auth_end c)) s2) as [a b] eqn:E. apply span_app in E.
      intros [= <- <-]. simpl. now rewrite E.
    + intros H0. revert H0.
      destruct c2 as [|p]; [intros [= <- <-]; reflexivity|].
      do 6 (destruct p as [p|p|]; try (intros [= <- <-]; reflexivity)); congruence.
  - intros H0. revert H0.
    destruct c1 as [|p]; [intros [= <- <-]; reflexivity|].
    do 6 (destruct p as [p|p|]; try (intros [= <- <-]; reflexivity)); congruence.
Qed.

Lemma split_query_spec s o r :
  split_query s = (o, r) -> (match o with Some q => 63%N :: q | None => [] end) ++ r = s.
Proof.
  unfold split_query.
  destruct s as [|c1 s1]; [intros [= <- <-]; reflexivity|].
  destruct (N.eq_dec c1 63) as [->|Hne].
  - destruct (span (fun c => negb (is_hash c)) s1) as [a b] eqn:E. apply span_app in E.
    intros [= <- <-]. simpl. now rewrite E.
  - intros H0. revert H0.
    destruct c1 as [|p]; [intros [= <- <-]; reflexivity|].
    do 6 (destruct p as [p|p|]; try (intros [= <- <-]; reflexivity)); congruence.
Qed.

Lemma split_frag_spec s :
  (match split_frag s with Some f => 35%N :: f | None => [] end) = s \/
  (split_frag s = None /\ s <> [] /\ hd 0%N s <> 35%N).
Proof.
  unfold split_frag. destruct s as [|c1 s1]; [auto|].
  destruct (N.eq_dec c1 35) as [->|Hne]; [auto|].
  right. split; [|split; [discriminate|exact Hne]].
  destruct c1 as [|p]; [reflexivity|].
  do 6 (destruct p as [p|p|]; try reflexivity); congruence.
Qed.

Theorem recompose_parse5 s : recompose (parse5 s) = s.
Proof.
  unfold parse5, recompose.
  destruct (split_scheme s) as [sch r1] eqn:E1.
  destruct (split_auth r1) as [au r2] eqn:E2.
  destruct (span (fun c => negb (is_path_end c)) r2) as [p r3] eqn:E3.
  destruct (split_query r3) as [q r4] eqn:E4.
  simpl.
  apply split_scheme_spec in E1. apply split_auth_spec in E2.
  pose proof (span_rest _ _ _ _ E3) as Hr3. apply span_app in E3.
  pose proof E4 as E4'. apply split_query_spec in E4.
  assert (Hf : (match split_frag r4 with Some f => 35%N :: f | None => [] end) = r4).
  { destruct (split_frag_spec r4) as [H|(Hn & Hne & Hh)]; [exact H|]. exfalso.
    (* r4 is what is left after the query: empty or starting with '#' *)
    unfold split_query in E4'.
    destruct Hr3 as [->|(c & b' & -> & Hc)].
    - injection E4' as <- <-. congruence.
    - unfold is_path_end in Hc. apply negb_false_iff in Hc. apply orb_true_iff in Hc as [Hc|Hc]; apply N.eqb_eq in Hc; subst c.
      + destruct (span (fun c => negb (is_hash c)) b') as [a b] eqn:Es.
        injection E4' as <- <-.
        apply span_rest in Es as [->|(c & b'' & -> & Hc)]; [congruence|].
        unfold is_hash in Hc. apply negb_false_iff, N.eqb_eq in Hc. subst c. simpl in Hh. congruence.
      + injection E4' as <- <-. simpl in Hh. congruence. }
  rewrite Hf.
  rewrite <- E1, <- E2, <- E3, <- E4.
  destruct sch, au, q; simpl; repeat rewrite <- app_assoc; reflexivity.
Qed.

(* ---------- dot segments ---------- *)
Definition nds (l : list bytes) : bool := negb (existsb is_dot_seg l).

Lemma split_on_span i a b :
  span not_slash i = (a, b) ->
  split_on 47 i = match b with [] => [a] | _ :: b' => a :: split_on 47 b' end.
Proof.
  revert a b. induction i as [|c i IH]; simpl; intros a b.
  - intros [= <- <-]. reflexivity.
  - unfold not_slash at 1. destruct (N.eqb c 47) eqn:Ec; simpl.
    + intros [= <- <-]. reflexivity.
    + destruct (span not_slash i) as [a' b'] eqn:E. intros [= <- <-].
      rewrite (IH _ _ eq_refl). destruct b'; reflexivity.
Qed.

Lemma split_on_nonempty sep l : split_on sep l <> [].
Proof.
  induction l as [|c l IH]; simpl; [discriminate|].
  destruct (N.eqb c sep); [discriminate|]. destruct (split_on sep l); [discriminate|discriminate].
Qed.

Lemma split_on_cons_slash l : split_on 47 (47%N :: l) = [] :: split_on 47 l.
Proof. reflexivity. Qed.

(* when no dot segment is present only step E fires, and it moves the first segment *)
Lemma rds_step_nodots i out :
  i <> [] -> nds (segments i) = true ->
  exists s r, rds_step i out = (r, s :: out) /\ s ++ r = i /\ s <> [] /\ (r = [] \/ nds (segments r) = true).
Proof.
  intros Hne Hnd. unfold rds_step, segments, nds in *.
  destruct (is_prefix [46%N; 46%N; 47%N] i) eqn:T1.
  { exfalso. apply is_prefix_app in T1. rewrite <- T1 in Hnd. simpl in Hnd.
    destruct (split_on 47 (skipn 3 i)) eqn:E; [now apply split_on_nonempty in E|]. simpl in Hnd. discriminate. }
  destruct (is_prefix [46%N; 47%N] i) eqn:T2.
  { exfalso. apply is_prefix_app in T2. rewrite <- T2 in Hnd. simpl in Hnd.
    destruct (split_on 47 (skipn 2 i)) eqn:E; [now apply split_on_nonempty in E|]. simpl in Hnd. discriminate. }
  destruct (is_prefix [47%N; 46%N; 47%N] i) eqn:T3.
  { exfalso. apply is_prefix_app in T3. rewrite <- T3 in Hnd. simpl in Hnd.
    destruct (split_on 47 (skipn 3 i)) eqn:E; [now apply split_on_nonempty in E|]. simpl in Hnd. discriminate. }
  destruct (beq i [47%N; 46%N]) eqn:T4.
  { exfalso. apply beq_true_iff in T4. subst i. simpl in Hnd. discriminate. }
  destruct (is_prefix [47%N; 46%N; 46%N; 47%N] i) eqn:T5.
  { exfalso. apply is_prefix_app in T5. rewrite <- T5 in Hnd. simpl in Hnd.
    destruct (split_on 47 (skipn 4 i)) eqn:E; [now apply split_on_nonempty in E|]. simpl in Hnd. discriminate. }
  destruct (beq i [47%N; 46%N; 46%N]) eqn:T6.
  { exfalso. apply beq_true_iff in T6. subst i. simpl in Hnd. discriminate. }
  destruct (beq i [46%N] || beq i [46%N; 46%N]) eqn:T7.
  { exfalso. apply orb_true_iff in T7 as [T7|T7]; apply beq_true_iff in T7; subst i; simpl in Hnd; discriminate. }
  unfold first_seg.
  destruct i as [|c i']; [congruence|].
  destruct (N.eqb_spec c 47) as [->|Hc].
  - destruct (span not_slash i') as [a b] eqn:E.
    exists (47%N :: a), b. split; [reflexivity|]. split; [simpl; f_equal; now apply span_app in E|].
    split; [discriminate|].
    rewrite split_on_cons_slash in Hnd. simpl in Hnd.
    rewrite (split_on_span _ _ _ E) in Hnd.
    destruct b as [|b0 b']; [auto|]. right.
    apply span_rest in E as [E|(c & b'' & E & Hc)]; [discriminate|]. injection E as <- <-.
    unfold not_slash in Hc. apply negb_false_iff, N.eqb_eq in Hc. subst b0.
    rewrite split_on_cons_slash. simpl in *. apply negb_true_iff in Hnd. apply orb_false_iff in Hnd as [_ Hnd].
    now apply negb_true_iff.
  - destruct (span not_slash (c :: i')) as [a b] eqn:E.
    exists a, b. split; [reflexivity|].
    split; [now apply span_app in E|].
    split.
    { simpl in E. unfold not_slash at 1 in E. apply N.eqb_neq in Hc. rewrite Hc in E. simpl in E.
      destruct (span not_slash i'). injection E as <- <-. discriminate. }
    rewrite (split_on_span _ _ _ E) in Hnd.
    destruct b as [|b0 b']; [auto|]. right.
    apply span_rest in E as [E|(c' & b'' & E & Hc')]; [discriminate|]. injection E as <- <-.
    unfold not_slash in Hc'. apply negb_false_iff, N.eqb_eq in Hc'. subst b0.
    rewrite split_on_cons_slash. simpl in *. apply negb_true_iff in Hnd. apply orb_false_iff in Hnd as [_ Hnd].
    now apply negb_true_iff.
Qed.

Lemma rds_loop_nodots fuel : forall i out,
  length i < fuel -> (i = [] \/ nds (segments i) = true) ->
  concat (rev (rds_loop fuel i out)) = concat (rev out) ++ i.
Proof.
  induction fuel as [|f IH]; intros i out Hl Hnd; [lia|].
  destruct i as [|c i']; [simpl; now rewrite app_nil_r|].
  destruct Hnd as [Hnd|Hnd]; [discriminate|].
  destruct (rds_step_nodots (c :: i') out) as (s & r & Hs & Happ & Hsne & Hr); [discriminate|assumption|].
  cbn [rds_loop]. rewrite Hs.
  rewrite IH.
  - simpl. rewrite concat_app. simpl. rewrite app_nil_r, <- app_assoc. now rewrite Happ.
  - assert (length (s ++ r) = length (c :: i')) by now rewrite Happ.
    rewrite app_length in H. destruct s; [congruence|]. simpl in *. lia.
  - exact Hr.
Qed.

Theorem rds_nodots p : no_dot_segments p = true -> remove_dot_segments p = p.
Proof.
  intros H. unfold remove_dot_segments. rewrite rds_loop_nodots; [reflexivity|lia|].
  right. exact H.
Qed.

(* an absolute reference without dot segments comes back unchanged *)
Theorem resolve_abs_nodots b r :
  has_scheme r = true -> no_dot_segments (c_path (parse5 r)) = true -> resolve b r = r.
Proof.
  unfold has_scheme, resolve, resolve_comps. intros Hs Hnd.
  destruct (c_scheme (parse5 r)) as [sch|] eqn:E; [|discriminate].
  rewrite rds_nodots by assumption.
  transitivity (recompose (parse5 r)); [|apply recompose_parse5].
  unfold recompose. cbn [c_scheme c_auth c_path c_query c_frag]. rewrite E. reflexivity.
Qed.

(* the result of resolving against an absolute base is absolute *)
Theorem resolve_comps_abs b r :
  c_scheme b <> None -> c_scheme (resolve_comps b r) <> None.
Proof.
  unfold resolve_comps. intros Hb.
  destruct (c_scheme r) eqn:E1; simpl; [congruence|].
  destruct (c_auth r); simpl; [assumption|].
  destruct (c_path r) as [|c p]; simpl; [assumption|].
  destruct c as [|q]; simpl; [assumption|].
  do 6 (destruct q as [q|q|]; simpl; try assumption).
Qed.

(* the fragment of the result is always the reference's fragment; the query is the
   reference's unless the reference has neither authority, path nor query *)
Theorem resolve_comps_fragment b r : c_frag (resolve_comps b r) = c_frag r.
Proof.
  unfold resolve_comps.
  destruct (c_scheme r); simpl; [reflexivity|].
  destruct (c_auth r); simpl; [reflexivity|].
  destruct (c_path r) as [|c p]; simpl; [reflexivity|].
  destruct c as [|q]; simpl; [reflexivity|].
  do 6 (destruct q as [q|q|]; simpl; try reflexivity).
Qed.

(* DescrProofs.v — resource export / flatten lemmas *)
From RK Require Import Base BaseFacts Descr.
From Coq Require Import Permutation.

Lemma node_eqb_eq a b : node_eqb a b = true <-> a = b.
Proof.
  destruct a, b; simpl; try (split; [discriminate|intros; discriminate]); rewrite Nat.eqb_eq; split; congruence.
Qed.
Lemma node_eqb_refl a : node_eqb a a = true.
Proof. now apply node_eqb_eq. Qed.
Lemma node_eqb_neq a b : node_eqb a b = false <-> a <> b.
Proof. split; [intros H E; apply node_eqb_eq in E; congruence|intros H; destruct (node_eqb a b) eqn:E; [apply node_eqb_eq in E; contradiction|reflexivity]]. Qed.

Lemma existsb_node_In x l : existsb (node_eqb x) l = true <-> In x l.
Proof.
  rewrite existsb_exists. split; [intros (y & Hy & E); apply node_eqb_eq in E; now subst|].
  intros H. exists x. split; [assumption|apply node_eqb_refl].
Qed.

(* ---------- subjects: first occurrences, each once ---------- *)
Lemma subjects_aux_In g : forall seen s,
  In s (subjects_aux g seen) <-> (exists t, In t g /\ t_s t = s) /\ ~ In s seen.
Proof.
  induction g as [|t g IH]; intros seen s; simpl.
  - split; [tauto|intros [(t & [] & _) _]].
  - destruct (existsb (node_eqb (t_s t)) seen) eqn:E.
    + apply existsb_node_In in E. rewrite IH. split.
      * intros [(t' & Ht' & Hs) Hn]. split; [eauto|assumption].
      * intros [(t' & [<-|Ht'] & Hs) Hn]; [subst s; contradiction|]. split; [eauto|assumption].
    + assert (Hn : ~ In (t_s t) seen) by (intros Hi; apply existsb_node_In in Hi; congruence).
      simpl. rewrite IH. split.
      * intros [<-|[(t' & Ht' & Hs) Hns]]; [split; [eauto|assumption]|].
        split; [eauto|]. intros Hi. apply Hns. now right.
      * intros [(t' & [<-|Ht'] & Hs) Hns]; [now left|].
        destruct (node_eqb (t_s t) s) eqn:E2; [apply node_eqb_eq in E2; now left|].
        right. split; [eauto|]. intros [H|H]; [apply node_eqb_neq in E2; contradiction|contradiction].
Qed.

Lemma subjects_aux_NoDup g : forall seen, NoDup (subjects_aux g seen).
Proof.
  induction g as [|t g IH]; intros seen; simpl; [constructor|].
  destruct (existsb (node_eqb (t_s t)) seen); [apply IH|].
  constructor; [|apply IH]. intros Hi. apply subjects_aux_In in Hi as [_ Hn]. apply Hn. now left.
Qed.

Lemma subjects_In g s : In s (subjects g) <-> exists t, In t g /\ t_s t = s.
Proof. unfold subjects. rewrite subjects_aux_In. split; [tauto|intros H; split; [assumption|tauto]]. Qed.

Lemma subjects_NoDup g : NoDup (subjects g).
Proof. apply subjects_aux_NoDup. Qed.

(* ---------- partition of a list by a key ---------- *)
Lemma filter_or_disjoint {A} (f h : A -> bool) l :
  (forall x, f x = true -> h x = false) ->
  Permutation (filter (fun x => f x || h x) l) (filter f l ++ filter h l).
Proof.
  intros Hd. induction l as [|x l IH]; simpl; [constructor|].
  destruct (f x) eqn:Ef; simpl.
  - rewrite (Hd x Ef). now constructor.
  - destruct (h x); simpl; [|exact IH].
    eapply perm_trans; [apply perm_skip, IH|]. apply Permutation_middle.
Qed.

Lemma partition_by_subject (g : graph) ks :
  NoDup ks ->
  Permutation (filter (fun t => existsb (node_eqb (t_s t)) ks) g) (flat_map (stmts_of g) ks).
Proof.
  induction ks as [|s ks IH]; intros Hnd; simpl.
  - induction g; simpl; auto.
  - inversion Hnd as [|? ? Hn Hnd']; subst.
    eapply perm_trans; [apply (filter_or_disjoint (fun t => node_eqb (t_s t) s) (fun t => existsb (node_eqb (t_s t)) ks))|].
    + intros t E. apply node_eqb_eq in E. destruct (existsb (node_eqb (t_s t)) ks) eqn:E2; [|reflexivity].
      apply existsb_node_In in E2. rewrite E in E2. contradiction.
    + apply Permutation_app; [reflexivity|now apply IH].
Qed.

Lemma filter_all {A} (f : A -> bool) l : (forall x, In x l -> f x = true) -> filter f l = l.
Proof.
  induction l as [|x l IH]; simpl; intros H; [reflexivity|]. rewrite (H x) by auto. f_equal. apply IH. auto.
Qed.

Theorem graph_by_subject g : Permutation g (flat_map (stmts_of g) (subjects g)).
Proof.
  rewrite <- (filter_all (fun t => existsb (node_eqb (t_s t)) (subjects g)) g) at 1.
  - apply partition_by_subject, subjects_NoDup.
  - intros t Ht. apply existsb_node_In. apply subjects_In. eauto.
Qed.

(* ---------- export without nesting ---------- *)
Lemma flatten_stmts_objs s (l : list triple) :
  flatten_stmts s (map (fun t => SObj (t_p t) (t_o t)) l) = map (fun t => (s, t_p t, t_o t)) l.
Proof. unfold flatten_stmts. induction l as [|t l IH]; simpl; [reflexivity|]. now rewrite IH. Qed.

Lemma stmts_of_subject g s t : In t (stmts_of g s) -> t_s t = s.
Proof. unfold stmts_of. intros H. apply filter_In in H as [_ H]. now apply node_eqb_eq. Qed.

Lemma map_id_on {A} (f : A -> A) l : (forall x, In x l -> f x = x) -> map f l = l.
Proof. induction l as [|x l IH]; simpl; intros H; [reflexivity|]. rewrite H by auto. f_equal. apply IH. auto. Qed.

Lemma export_statements_noinline f g pinned o s :
  inline o = false ->
  export_statements (S f) g pinned o s = map (fun t => SObj (t_p t) (t_o t)) (stmts_of g s).
Proof.
  intros Hi. simpl. apply map_ext. intros t. rewrite Hi. simpl. destruct (t_o t); reflexivity.
Qed.

Lemma flatten_resource_noinline g pinned o s :
  inline o = false -> flatten_resource (export_resource g pinned o s) = stmts_of g s.
Proof.
  intros Hi. unfold export_resource. rewrite export_statements_noinline by assumption.
  assert (H : flatten_stmts s (map (fun t => SObj (t_p t) (t_o t)) (stmts_of g s)) = stmts_of g s).
  { rewrite flatten_stmts_objs. apply map_id_on. intros [[a p] ob] Ht. apply stmts_of_subject in Ht. unfold t_s, t_p, t_o in *. simpl in *. now subst. }
  destruct s as [n|b|n]; simpl; try exact H.
  destruct (use_anon o && Nat.eqb (refs g b) 0 && negb (memn b pinned)); simpl; exact H.
Qed.

Theorem export_flatten_noinline g pinned o :
  inline o = false -> Permutation (flatten (export g pinned o)) g.
Proof.
  intros Hi. symmetry. eapply perm_trans; [apply graph_by_subject|].
  unfold flatten, export. rewrite Hi. simpl.
  induction (subjects g) as [|s l IH]; simpl; [constructor|].
  rewrite flat_map_app. apply Permutation_app; [|exact IH].
  assert (Hs : match s with NIri _ | _ => [export_resource g pinned o s] end = [export_resource g pinned o s]) by (destruct s; reflexivity).
  rewrite Hs. simpl. rewrite app_nil_r. rewrite flatten_resource_noinline by assumption. reflexivity.
Qed.

(* ---------- facts about the nesting test ---------- *)
Theorem inlined_single_ref g pinned b :
  inlined g pinned b = true -> refs g b = 1 /\ memn b pinned = false.
Proof.
  unfold inlined. rewrite !andb_true_iff, Nat.eqb_eq, negb_true_iff. tauto.
Qed.

(* a blank node whose only referrer is itself is never nested (the former stack overflow) *)
Theorem self_reference_not_inlined g pinned b :
  referrer g b = Some (NBlank b) -> inlined g pinned b = false.
Proof.
  intros Hr. unfold inlined. destruct (Nat.eqb (refs g b) 1) eqn:E1; [|reflexivity].
  destruct (memn b pinned) eqn:E2; [reflexivity|]. simpl. rewrite Hr, E1, E2. simpl.
  now rewrite Nat.eqb_refl.
Qed.


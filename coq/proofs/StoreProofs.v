(* StoreProofs.v — the in-memory store refines a mathematical set of quads *)
From RK Require Import Base BaseFacts Store.
From Coq Require Import Permutation.

(* ---------- equality reflection ---------- *)
Lemma opt_beq_eq a b : opt_beq a b = true <-> a = b.
Proof.
  destruct a, b; simpl; try (split; [discriminate|intros; discriminate]); [|tauto].
  rewrite beq_true_iff. split; congruence.
Qed.

Lemma term_eqb_eq a b : term_eqb a b = true <-> a = b.
Proof.
  destruct a, b; simpl; try (split; [discriminate|intros; discriminate]).
  - rewrite beq_true_iff. split; congruence.
  - rewrite andb_true_iff, !N.eqb_eq. split; [intros [-> ->]; reflexivity|intros [= -> ->]; auto].
  - rewrite !andb_true_iff, !beq_true_iff, !opt_beq_eq.
    split; [intros [[[-> ->] ->] ->]; reflexivity|intros [= -> -> -> ->]; auto].
Qed.

Lemma gname_eqb_eq a b : gname_eqb a b = true <-> a = b.
Proof.
  destruct a, b; simpl; try (split; [discriminate|intros; discriminate]); [|tauto].
  rewrite term_eqb_eq. split; congruence.
Qed.

Lemma quad_eqb_eq a b : quad_eqb a b = true <-> a = b.
Proof.
  destruct a, b. unfold quad_eqb. simpl. rewrite !andb_true_iff, !term_eqb_eq, gname_eqb_eq.
  split; [intros [[[-> ->] ->] ->]; reflexivity|intros [= -> -> -> ->]; auto].
Qed.

Lemma po_eqb_eq a b : po_eqb a b = true <-> a = b.
Proof.
  destruct a, b. unfold po_eqb. simpl. rewrite andb_true_iff, !term_eqb_eq. split; [intros [-> ->]; reflexivity|intros [= -> ->]; auto].
Qed.

Lemma existsb_eqb_In {A} (eqb : A -> A -> bool) (H : forall a b, eqb a b = true <-> a = b) x l :
  existsb (eqb x) l = true <-> In x l.
Proof.
  rewrite existsb_exists. split.
  - intros (y & Hy & E). apply H in E. now subst.
  - intros Hi. exists x. split; [assumption|]. now apply H.
Qed.

(* ---------- association lists ---------- *)
Section Assoc.
  Context {K V : Type} (eqb : K -> K -> bool) (eqb_eq : forall a b, eqb a b = true <-> a = b).

  Lemma afind_In k (l : list (K * V)) v : afind eqb k l = Some v -> In (k, v) l.
  Proof.
    induction l as [|[n x] l IH]; simpl; [discriminate|].
    destruct (eqb n k) eqn:E; [apply eqb_eq in E; subst; intros [= ->]; auto|auto].
  Qed.

  Lemma afind_None k (l : list (K * V)) : afind eqb k l = None <-> ~ In k (map fst l).
  Proof.
    induction l as [|[n x] l IH]; simpl; [tauto|].
    destruct (eqb n k) eqn:E.
    - apply eqb_eq in E. subst. split; [discriminate|tauto].
    - rewrite IH. split; [|tauto]. intros H [H1|H1]; [|tauto]. subst. assert (eqb k k = true) by now apply eqb_eq. congruence.
  Qed.

  Lemma In_afind k (l : list (K * V)) v : NoDup (map fst l) -> In (k, v) l -> afind eqb k l = Some v.
  Proof.
    induction l as [|[n x] l IH]; simpl; intros Hnd Hi; [contradiction|].
    inversion Hnd as [|? ? Hn Hnd']; subst.
    destruct Hi as [[= -> ->]|Hi].
    - assert (eqb k k = true) by now apply eqb_eq. now rewrite H.
    - destruct (eqb n k) eqn:E; [|auto]. apply eqb_eq in E. subst. exfalso. apply Hn.
      change k with (fst (k, v)). now apply in_map.
  Qed.

  Lemma afind_aset k v (l : list (K * V)) k' : afind eqb k' (aset eqb k v l) = if eqb k k' then Some v else afind eqb k' l.
  Proof.
    induction l as [|[n x] l IH]; simpl.
    - destruct (eqb k k'); reflexivity.
    - destruct (eqb n k) eqn:E; simpl.
      + apply eqb_eq in E. subst. destruct (eqb k k'); reflexivity.
      + rewrite IH. destruct (eqb k k') eqn:E2; [|reflexivity].
        apply eqb_eq in E2. subst. now rewrite E.
  Qed.

  Lemma keys_aset k v (l : list (K * V)) :
    map fst (aset eqb k v l) = if existsb (eqb k) (map fst l) then map fst l else map fst l ++ [k].
  Proof.
    induction l as [|[n x] l IH]; simpl; [reflexivity|].
    destruct (eqb n k) eqn:E; simpl.
    - apply eqb_eq in E. subst. assert (eqb k k = true) by now apply eqb_eq. now rewrite H.
    - assert (eqb k n = false).
      { destruct (eqb k n) eqn:E2; [|reflexivity]. apply eqb_eq in E2. subst. assert (eqb n n = true) by now apply eqb_eq. congruence. }
      rewrite H. simpl. rewrite IH. destruct (existsb (eqb k) (map fst l)); reflexivity.
  Qed.

  Lemma NoDup_keys_aset k v (l : list (K * V)) : NoDup (map fst l) -> NoDup (map fst (aset eqb k v l)).
  Proof.
    intros H. rewrite keys_aset. destruct (existsb (eqb k) (map fst l)) eqn:E; [assumption|].
    apply Permutation_NoDup with (l := k :: map fst l); [apply Permutation_cons_append|].
    constructor; [|assumption]. intros Hi. apply (existsb_eqb_In eqb eqb_eq) in Hi. congruence.
  Qed.

  Lemma In_aset k v (l : list (K * V)) x w : NoDup (map fst l) ->
    (In (x, w) (aset eqb k v l) <-> (x = k /\ w = v) \/ (x <> k /\ In (x, w) l)).
  Proof.
    intros Hnd. split.
    - intros Hi. assert (Hf : afind eqb x (aset eqb k v l) = Some w) by (apply In_afind; [now apply NoDup_keys_aset|assumption]).
      rewrite afind_aset in Hf. destruct (eqb k x) eqn:E.
      + apply eqb_eq in E. subst. injection Hf as <-. auto.
      + right. split; [intros ->; assert (eqb k k = true) by (now apply eqb_eq); congruence|]. now apply afind_In.
    - intros [[-> ->]|[Hne Hi]].
      + apply afind_In. rewrite afind_aset. assert (eqb k k = true) by now apply eqb_eq. now rewrite H.
      + apply afind_In. rewrite afind_aset. destruct (eqb k x) eqn:E; [apply eqb_eq in E; congruence|].
        now apply In_afind.
  Qed.
End Assoc.

(* ---------- invariant ---------- *)
Definition BInv (bs : list bucket) : Prop :=
  NoDup (map fst bs) /\ Forall (fun b => NoDup (snd b)) bs.
Definition SInv (st : store) : Prop :=
  NoDup (map fst st) /\ Forall (fun g => BInv (snd g)) st.

Lemma SInv_store0 : SInv store0.
Proof. split; [repeat constructor; auto|]. repeat constructor. Qed.

(* membership in the flattened contents *)
Lemma In_graph_quads g bs q :
  In q (graph_quads g bs) <-> q_g q = g /\ exists l, In (q_s q, l) bs /\ In (q_p q, q_o q) l.
Proof.
  unfold graph_quads. rewrite in_flat_map. split.
  - intros ([s l] & Hb & Hq). apply in_map_iff in Hq as ([p o] & <- & Hpo). simpl. split; [reflexivity|]. eauto.
  - intros [Hg (l & Hb & Hpo)]. exists (q_s q, l). split; [assumption|]. apply in_map_iff. exists (q_p q, q_o q).
    split; [|assumption]. destruct q; simpl in *. now subst.
Qed.

Lemma In_all_quads st q :
  In q (all_quads st) <-> exists bs l, In (q_g q, bs) st /\ In (q_s q, l) bs /\ In (q_p q, q_o q) l.
Proof.
  unfold all_quads. rewrite in_flat_map. split.
  - intros ([g bs] & Hg & Hq). apply In_graph_quads in Hq as [<- (l & Hb & Hpo)]. eauto.
  - intros (bs & l & Hg & Hb & Hpo). exists (q_g q, bs). split; [assumption|]. apply In_graph_quads. eauto.
Qed.

Lemma has_quad_spec st q : SInv st -> (has_quad st q = true <-> In q (all_quads st)).
Proof.
  intros [Hnd Hf]. unfold has_quad, find_graph, find_bucket. rewrite In_all_quads.
  destruct (afind gname_eqb (q_g q) st) as [bs|] eqn:Eg.
  - pose proof (afind_In _ gname_eqb_eq _ _ _ Eg) as Hgi.
    rewrite Forall_forall in Hf. destruct (Hf _ Hgi) as [Hbn Hbf]. simpl in *.
    destruct (afind term_eqb (q_s q) bs) as [l|] eqn:Eb.
    + rewrite (existsb_eqb_In po_eqb po_eqb_eq). split.
      * intros Hi. exists bs, l. repeat split; auto. eapply afind_In; eauto. exact term_eqb_eq.
      * intros (bs' & l' & Hg' & Hb' & Hpo).
        assert (bs' = bs) by (apply (In_afind _ gname_eqb_eq) in Hg'; [congruence|assumption]). subst bs'.
        assert (l' = l) by (apply (In_afind _ term_eqb_eq) in Hb'; [congruence|assumption]). now subst l'.
    + simpl. split; [discriminate|]. intros (bs' & l' & Hg' & Hb' & Hpo).
      assert (bs' = bs) by (apply (In_afind _ gname_eqb_eq) in Hg'; [congruence|assumption]). subst bs'.
      apply (afind_None _ term_eqb_eq) in Eb. exfalso. apply Eb. change (q_s q) with (fst (q_s q, l')). now apply in_map.
  - split; [discriminate|]. intros (bs' & l' & Hg' & _).
    apply (afind_None _ gname_eqb_eq) in Eg. exfalso. apply Eg. change (q_g q) with (fst (q_g q, bs')). now apply in_map.
Qed.

(* ensure_graph: creating an empty graph changes nothing observable *)
Lemma ensure_graph_SInv g st : SInv st -> SInv (ensure_graph g st).
Proof.
  intros [Hnd Hf]. unfold ensure_graph, find_graph, set_graph.
  destruct (afind gname_eqb g st) eqn:E; [split; assumption|].
  split; [now apply (NoDup_keys_aset _ gname_eqb_eq)|].
  apply Forall_forall. intros [g' bs] Hi. apply (In_aset _ gname_eqb_eq) in Hi; [|assumption].
  destruct Hi as [[-> ->]|[_ Hi]]; [split; constructor|]. rewrite Forall_forall in Hf. now apply (Hf (g', bs)).
Qed.

Lemma ensure_graph_quads g st q : SInv st -> (In q (all_quads (ensure_graph g st)) <-> In q (all_quads st)).
Proof.
  intros [Hnd Hf]. unfold ensure_graph, find_graph, set_graph.
  destruct (afind gname_eqb g st) eqn:E; [tauto|].
  rewrite !In_all_quads. split.
  - intros (bs & l & Hg & Hb & Hpo). apply (In_aset _ gname_eqb_eq) in Hg; [|assumption].
    destruct Hg as [[_ ->]|[_ Hg]]; [contradiction|eauto].
  - intros (bs & l & Hg & Hb & Hpo). exists bs, l. repeat split; auto.
    apply (In_aset _ gname_eqb_eq); [assumption|]. right. split; [|assumption].
    intros Heq. apply (afind_None _ gname_eqb_eq) in E. apply E. rewrite <- Heq. change (q_g q) with (fst (q_g q, bs)). now apply in_map.
Qed.

Lemma ensure_graph_found g st : exists bs, find_graph g (ensure_graph g st) = Some bs.
Proof.
  unfold ensure_graph, find_graph, set_graph. destruct (afind gname_eqb g st) eqn:E; [eauto|].
  exists []. rewrite (afind_aset _ gname_eqb_eq). assert (gname_eqb g g = true) by now apply gname_eqb_eq. now rewrite H.
Qed.

(* replacing one bucket of one graph *)
Lemma In_replace st g bs s l q :
  SInv st -> find_graph g st = Some bs ->
  (In q (all_quads (set_graph g (set_bucket s l bs) st)) <->
   (q_g q = g /\ q_s q = s /\ In (q_p q, q_o q) l) \/ (~ (q_g q = g /\ q_s q = s) /\ In q (all_quads st))).
Proof.
  intros [Hnd Hf] Eg. unfold find_graph, set_graph, set_bucket in *.
  pose proof (afind_In _ gname_eqb_eq _ _ _ Eg) as Hgi.
  rewrite Forall_forall in Hf. destruct (Hf _ Hgi) as [Hbn _]. simpl in Hbn.
  rewrite !In_all_quads. split.
  - intros (bs' & l' & Hg & Hb & Hpo).
    apply (In_aset _ gname_eqb_eq) in Hg; [|assumption].
    destruct Hg as [[Hgq ->]|[Hne Hg]].
    + apply (In_aset _ term_eqb_eq) in Hb; [|assumption].
      destruct Hb as [[Hs ->]|[Hne Hb]]; [left; auto|].
      right. split; [tauto|]. exists bs, l'. rewrite Hgq. auto.
    + right. split; [tauto|]. eauto.
  - intros [(Hg & Hs & Hpo)|[Hne (bs' & l' & Hg & Hb & Hpo)]].
    + exists (aset term_eqb s l bs), l. repeat split; auto.
      * apply (In_aset _ gname_eqb_eq); [assumption|]. left. auto.
      * apply (In_aset _ term_eqb_eq); [assumption|]. left. auto.
    + destruct (gname_eqb (q_g q) g) eqn:E1.
      * apply gname_eqb_eq in E1.
        assert (bs' = bs) by (rewrite E1 in Hg; apply (In_afind _ gname_eqb_eq) in Hg; [congruence|assumption]). subst bs'.
        exists (aset term_eqb s l bs), l'. repeat split; auto.
        -- apply (In_aset _ gname_eqb_eq); [assumption|]. left. auto.
        -- apply (In_aset _ term_eqb_eq); [assumption|]. right. split; [|assumption]. intros Hs. apply Hne. auto.
      * exists bs', l'. repeat split; auto.
        apply (In_aset _ gname_eqb_eq); [assumption|]. right. split; [|assumption].
        intros Heq. apply gname_eqb_eq in Heq. congruence.
Qed.

Lemma SInv_replace st g bs s l :
  SInv st -> find_graph g st = Some bs -> NoDup l -> SInv (set_graph g (set_bucket s l bs) st).
Proof.
  intros [Hnd Hf] Eg Hl. unfold find_graph, set_graph, set_bucket in *.
  pose proof (afind_In _ gname_eqb_eq _ _ _ Eg) as Hgi.
  rewrite Forall_forall in Hf. destruct (Hf _ Hgi) as [Hbn Hbf]. simpl in *.
  split; [now apply (NoDup_keys_aset _ gname_eqb_eq)|].
  apply Forall_forall. intros [g' bs'] Hi. apply (In_aset _ gname_eqb_eq) in Hi; [|assumption]. simpl.
  destruct Hi as [[-> ->]|[_ Hi]]; [|now apply (Hf (g', bs'))].
  split; [now apply (NoDup_keys_aset _ term_eqb_eq)|].
  apply Forall_forall. intros [s' l'] Hi. apply (In_aset _ term_eqb_eq) in Hi; [|assumption]. simpl.
  destruct Hi as [[-> ->]|[_ Hi]]; [assumption|]. rewrite Forall_forall in Hbf. now apply (Hbf (s', l')).
Qed.

Lemma bucket_contents st g bs s q :
  SInv st -> find_graph g st = Some bs -> q_g q = g -> q_s q = s ->
  (In q (all_quads st) <-> In (q_p q, q_o q) (find_bucket s bs)).
Proof.
  intros HI Eg Hg Hs. rewrite <- (has_quad_spec st q HI). unfold has_quad. rewrite Hg, Eg, Hs.
  apply (existsb_eqb_In po_eqb po_eqb_eq).
Qed.

Lemma bucket_NoDup st g bs s : SInv st -> find_graph g st = Some bs -> NoDup (find_bucket s bs).
Proof.
  intros [Hnd Hf] Eg. unfold find_graph, find_bucket in *.
  pose proof (afind_In _ gname_eqb_eq _ _ _ Eg) as Hgi.
  rewrite Forall_forall in Hf. destruct (Hf _ Hgi) as [Hbn Hbf]. simpl in *.
  destruct (afind term_eqb s bs) as [l|] eqn:Eb; [|constructor].
  apply (afind_In _ term_eqb_eq) in Eb. rewrite Forall_forall in Hbf. now apply (Hbf (s, l)).
Qed.

Theorem add_quad_spec st q x :
  SInv st -> SInv (add_quad st q) /\ (In x (all_quads (add_quad st q)) <-> x = q \/ In x (all_quads st)).
Proof.
  intros HI. unfold add_quad.
  pose proof (ensure_graph_SInv (q_g q) st HI) as HI1.
  destruct (ensure_graph_found (q_g q) st) as (bs & Eg). rewrite Eg.
  pose proof (ensure_graph_quads (q_g q) st x HI) as Hq1.
  set (st1 := ensure_graph (q_g q) st) in *.
  destruct (existsb (po_eqb (q_p q, q_o q)) (find_bucket (q_s q) bs)) eqn:Ex.
  - split; [assumption|]. rewrite Hq1. split; [auto|]. intros [->|H]; [|assumption].
    apply Hq1. apply (bucket_contents st1 (q_g q) bs (q_s q) q HI1 Eg eq_refl eq_refl).
    now apply (existsb_eqb_In po_eqb po_eqb_eq).
  - assert (Hnot : ~ In (q_p q, q_o q) (find_bucket (q_s q) bs)).
    { intros Hi. apply (existsb_eqb_In po_eqb po_eqb_eq) in Hi. congruence. }
    split.
    + apply SInv_replace; [assumption|assumption|].
      apply Permutation_NoDup with (l := (q_p q, q_o q) :: find_bucket (q_s q) bs); [apply Permutation_cons_append|].
      constructor; [assumption|]. eapply bucket_NoDup; eauto.
    + rewrite (In_replace st1 (q_g q) bs _ _ x HI1 Eg). rewrite <- Hq1. split.
      * intros [(Hg & Hs & Hpo)|[_ Hi]]; [|auto].
        apply in_app_or in Hpo as [Hpo|[Hpo|[]]].
        -- right. now apply (bucket_contents st1 (q_g q) bs (q_s q) x HI1 Eg Hg Hs).
        -- left. destruct x, q; simpl in *. injection Hpo as -> ->. now subst.
      * intros [->|Hi].
        -- left. repeat split; auto. apply in_or_app. right. left. reflexivity.
        -- destruct (gname_eqb (q_g x) (q_g q)) eqn:E1; [destruct (term_eqb (q_s x) (q_s q)) eqn:E2|].
           ++ apply gname_eqb_eq in E1. apply term_eqb_eq in E2. left. repeat split; auto.
              apply in_or_app. left. now apply (bucket_contents st1 (q_g q) bs (q_s q) x HI1 Eg E1 E2).
           ++ right. split; [|assumption]. intros [_ Hs]. apply term_eqb_eq in Hs. congruence.
           ++ right. split; [|assumption]. intros [Hg _]. apply gname_eqb_eq in Hg. congruence.
Qed.

Theorem del_quad_spec st q x :
  SInv st -> SInv (del_quad st q) /\ (In x (all_quads (del_quad st q)) <-> x <> q /\ In x (all_quads st)).
Proof.
  intros HI. unfold del_quad.
  pose proof (ensure_graph_SInv (q_g q) st HI) as HI1.
  destruct (ensure_graph_found (q_g q) st) as (bs & Eg). rewrite Eg.
  pose proof (ensure_graph_quads (q_g q) st x HI) as Hq1.
  set (st1 := ensure_graph (q_g q) st) in *.
  destruct (existsb (po_eqb (q_p q, q_o q)) (find_bucket (q_s q) bs)) eqn:Ex.
  - split.
    + apply SInv_replace; [assumption|assumption|]. apply NoDup_filter. eapply bucket_NoDup; eauto.
    + rewrite (In_replace st1 (q_g q) bs _ _ x HI1 Eg). rewrite <- Hq1. split.
      * intros [(Hg & Hs & Hpo)|[Hne Hi]].
        -- apply filter_In in Hpo as [Hpo Hneq]. split.
           ++ intros ->. apply negb_true_iff in Hneq. assert (po_eqb (q_p q, q_o q) (q_p q, q_o q) = true) by now apply po_eqb_eq. congruence.
           ++ now apply (bucket_contents st1 (q_g q) bs (q_s q) x HI1 Eg Hg Hs).
        -- split; [|assumption]. intros ->. apply Hne. auto.
      * intros [Hne Hi].
        destruct (gname_eqb (q_g x) (q_g q)) eqn:E1; [destruct (term_eqb (q_s x) (q_s q)) eqn:E2|].
        -- apply gname_eqb_eq in E1. apply term_eqb_eq in E2. left. repeat split; auto.
           apply filter_In. split; [now apply (bucket_contents st1 (q_g q) bs (q_s q) x HI1 Eg E1 E2)|].
           apply negb_true_iff. destruct (po_eqb (q_p q, q_o q) (q_p x, q_o x)) eqn:E3; [|reflexivity].
           apply po_eqb_eq in E3. exfalso. apply Hne. destruct x, q; simpl in *. injection E3 as -> ->. now subst.
        -- right. split; [|assumption]. intros [_ Hs]. apply term_eqb_eq in Hs. congruence.
        -- right. split; [|assumption]. intros [Hg _]. apply gname_eqb_eq in Hg. congruence.
  - split; [assumption|]. rewrite Hq1. split; [|tauto]. intros Hi. split; [|assumption].
    intros ->. apply Hq1 in Hi. apply (bucket_contents st1 (q_g q) bs (q_s q) q HI1 Eg eq_refl eq_refl) in Hi.
    apply (existsb_eqb_In po_eqb po_eqb_eq) in Hi. congruence.
Qed.

(* ---------- no duplicates in the contents ---------- *)
Lemma NoDup_flat_map {A B} (f : A -> list B) l :
  NoDup l -> (forall a, In a l -> NoDup (f a)) ->
  (forall a a' b, In a l -> In a' l -> In b (f a) -> In b (f a') -> a = a') ->
  NoDup (flat_map f l).
Proof.
  induction l as [|a l IH]; simpl; intros Hnd Hf Hdisj; [constructor|].
  inversion Hnd as [|? ? Hn Hnd']; subst.
  assert (Hd : forall x, In x (f a) -> ~ In x (flat_map f l)).
  { intros x Hx Hi. apply in_flat_map in Hi as (a' & Ha' & Hx'). assert (a = a') by (eapply Hdisj; eauto). subst. contradiction. }
  clear Hn. assert (Hfa : NoDup (f a)) by auto.
  assert (Hrest : NoDup (flat_map f l)) by (apply IH; auto; intros; eapply Hdisj; eauto).
  clear -Hd Hfa Hrest. induction (f a) as [|y ys IHy]; simpl; [assumption|].
  inversion Hfa; subst. constructor.
  - rewrite in_app_iff. intros [H|H]; [contradiction|]. eapply Hd; eauto. now left.
  - apply IHy; auto. intros x Hx. apply Hd. now right.
Qed.

Lemma NoDup_keys_NoDup {K V} (l : list (K * V)) : NoDup (map fst l) -> NoDup l.
Proof.
  induction l as [|[k v] l IH]; simpl; intros H; [constructor|]. inversion H; subst.
  constructor; [|auto]. intros Hi. apply H2. change k with (fst (k, v)). now apply in_map.
Qed.

Lemma all_quads_NoDup st : SInv st -> NoDup (all_quads st).
Proof.
  intros [Hnd Hf]. unfold all_quads. apply NoDup_flat_map.
  - now apply NoDup_keys_NoDup.
  - intros [g bs] Hg. rewrite Forall_forall in Hf. destruct (Hf _ Hg) as [Hbn Hbf]. simpl in *.
    unfold graph_quads. apply NoDup_flat_map.
    + now apply NoDup_keys_NoDup.
    + intros [s l] Hb. rewrite Forall_forall in Hbf. specialize (Hbf _ Hb). simpl in Hbf.
      clear -Hbf. induction Hbf as [|[p o] l Hn Hl IH]; simpl; constructor; [|assumption].
      intros Hi. apply in_map_iff in Hi as ([p' o'] & [= -> ->] & Hi). contradiction.
    + intros [s l] [s' l'] b Hb Hb' Hi Hi'.
      apply in_map_iff in Hi as ([p o] & <- & Hi). apply in_map_iff in Hi' as ([p' o'] & Heq & Hi').
      injection Heq as Hs _ _. subst s'.
      f_equal. assert (Hfnd : afind term_eqb s bs = Some l) by (apply (In_afind _ term_eqb_eq); assumption).
      assert (Hfnd' : afind term_eqb s bs = Some l') by (apply (In_afind _ term_eqb_eq); assumption). congruence.
  - intros [g bs] [g' bs'] q Hg Hg' Hi Hi'.
    apply In_graph_quads in Hi as [E1 _]. apply In_graph_quads in Hi' as [E2 _]. subst g. subst g'. f_equal.
    assert (afind gname_eqb (q_g q) st = Some bs) by (apply (In_afind _ gname_eqb_eq); assumption).
    assert (afind gname_eqb (q_g q) st = Some bs') by (apply (In_afind _ gname_eqb_eq); assumption). congruence.
Qed.

(* ---------- iteration = filter of the contents (fast path = slow path) ---------- *)
Lemma filter_flat_map {A B} (p : B -> bool) (f : A -> list B) l :
  filter p (flat_map f l) = flat_map (fun a => filter p (f a)) l.
Proof. induction l as [|a l IH]; simpl; [reflexivity|]. now rewrite filter_app, IH. Qed.

Lemma flat_map_ext' {A B} (f g : A -> list B) l : (forall a, f a = g a) -> flat_map f l = flat_map g l.
Proof. intros H. induction l as [|a l IH]; simpl; [reflexivity|]. now rewrite H, IH. Qed.

Lemma split_subject_q_spec ms ss os :
  split_subject_q ms = (ss, os) ->
  forall q, forallb (fun m => qmatches m q) ms =
            forallb (fun m => tmatches m (Some (q_s q))) ss && forallb (fun m => qmatches m q) os.
Proof.
  revert ss os. induction ms as [|m ms IH]; simpl; intros ss os.
  - intros [= <- <-] q. reflexivity.
  - destruct (split_subject_q ms) as [ss' os'] eqn:E. specialize (IH _ _ eq_refl).
    intros H q. rewrite IH.
    destruct m as [x|x|x|x|[x|x|x]]; injection H as <- <-; simpl;
      match goal with |- ?a && (?b && ?c) = _ => destruct a, b, c; reflexivity end.
Qed.

Lemma filter_true_all {A} (l : list A) : filter (fun _ => true) l = l.
Proof. induction l as [|a l IH]; simpl; [reflexivity|]. now rewrite IH. Qed.

Lemma filter_ext_in' {A} (f g : A -> bool) l : (forall a, In a l -> f a = g a) -> filter f l = filter g l.
Proof.
  induction l as [|a l IH]; simpl; intros H; [reflexivity|].
  rewrite (H a) by auto. rewrite IH by auto. reflexivity.
Qed.

Theorem graph_iter_q_filter g bs ms :
  graph_iter_q g bs ms = filter (fun q => forallb (fun m => qmatches m q) ms) (graph_quads g bs).
Proof.
  unfold graph_iter_q. destruct ms as [|m0 ms0]; [simpl; now rewrite filter_true_all|].
  set (ms := m0 :: ms0). destruct (split_subject_q ms) as [ss os] eqn:E.
  destruct ss as [|sm [|sm2 ss2]]; try reflexivity.
  pose proof (split_subject_q_spec _ _ _ E) as Hs.
  unfold graph_quads. rewrite filter_flat_map. apply flat_map_ext'. intros [s l].
  destruct (tmatches sm (Some s)) eqn:Et.
  - apply filter_ext_in'. intros q Hq. apply in_map_iff in Hq as ([p o] & <- & _).
    rewrite Hs. simpl. now rewrite Et.
  - symmetry. rewrite <- (filter_ext_in' (fun _ => false)).
    + clear. induction (map (fun '(p, o) => Quad s p o g) l); simpl; auto.
    + intros q Hq. apply in_map_iff in Hq as ([p o] & <- & _). rewrite Hs. simpl. now rewrite Et.
Qed.

Theorem iter_quads_filter st ms :
  iter_quads st ms = filter (fun q => forallb (fun m => qmatches m q) ms) (all_quads st).
Proof.
  unfold iter_quads, all_quads. rewrite filter_flat_map. apply flat_map_ext'. intros [g bs]. apply graph_iter_q_filter.
Qed.

Lemma split_subject_t_spec ms ss os :
  split_subject_t ms = (ss, os) ->
  forall s p o, forallb (fun m => trmatches m s p o) ms =
            forallb (fun m => tmatches m (Some s)) ss && forallb (fun m => trmatches m s p o) os.
Proof.
  revert ss os. induction ms as [|m ms IH]; simpl; intros ss os.
  - intros [= <- <-] s p o. reflexivity.
  - destruct (split_subject_t ms) as [ss' os'] eqn:E. specialize (IH _ _ eq_refl).
    intros H s p o. rewrite IH.
    destruct m as [x|x|x]; injection H as <- <-; simpl;
      match goal with |- ?a && (?b && ?c) = _ => destruct a, b, c; reflexivity end.
Qed.

Theorem graph_iter_t_filter g bs ms :
  graph_iter_t g bs ms = filter (fun q => forallb (fun m => trmatches m (q_s q) (q_p q) (q_o q)) ms) (graph_quads g bs).
Proof.
  unfold graph_iter_t. destruct ms as [|m0 ms0]; [simpl; now rewrite filter_true_all|].
  set (ms := m0 :: ms0). destruct (split_subject_t ms) as [ss os] eqn:E.
  destruct ss as [|sm [|sm2 ss2]]; try reflexivity.
  pose proof (split_subject_t_spec _ _ _ E) as Hs.
  unfold graph_quads. rewrite filter_flat_map. apply flat_map_ext'. intros [s l].
  destruct (tmatches sm (Some s)) eqn:Et.
  - apply filter_ext_in'. intros q Hq. apply in_map_iff in Hq as ([p o] & <- & _).
    cbn [q_s q_p q_o]. rewrite Hs. simpl. now rewrite Et.
  - symmetry. rewrite <- (filter_ext_in' (fun _ => false)).
    + clear. induction (map (fun '(p, o) => Quad s p o g) l); simpl; auto.
    + intros q Hq. apply in_map_iff in Hq as ([p o] & <- & _). cbn [q_s q_p q_o]. rewrite Hs. simpl. now rewrite Et.
Qed.

(* ---------- matchers agree with term equality ---------- *)
Theorem matcher_equals t u : tmatches (MEq t) (Some u) = term_eqb t u.
Proof. reflexivity. Qed.
Theorem matcher_oneof ts u : tmatches (MOneOf ts) (Some u) = existsb (fun e => term_eqb e u) ts.
Proof. reflexivity. Qed.

(* ---------- the literal key is injective on well-formed literals ---------- *)
(* well-formed: the datatype IRI contains no LF, the language tag no quote or LF; a literal
   carries a language exactly when its datatype is rdf:langString or rdf:dirLangString,
   in which case its key continues with the lang= marker, which no tag-less literal of that datatype has *)
Definition no_byte (c : N) (l : bytes) : bool := negb (existsb (N.eqb c) l).

Lemma app_cut_unique (a a' r r' : bytes) c :
  no_byte c a = true -> no_byte c a' = true -> a ++ c :: r = a' ++ c :: r' -> a = a' /\ r = r'.
Proof.
  revert a'. induction a as [|x a IH]; intros [|x' a'] Ha Ha' H; simpl in *.
  - injection H as ->. auto.
  - injection H as <- _. unfold no_byte in Ha'. simpl in Ha'. rewrite N.eqb_refl in Ha'. discriminate.
  - injection H as -> _. unfold no_byte in Ha. simpl in Ha. rewrite N.eqb_refl in Ha. discriminate.
  - injection H as <- H. unfold no_byte in *. simpl in *. apply negb_true_iff in Ha, Ha'. apply orb_false_iff in Ha as [_ Ha], Ha' as [_ Ha'].
    destruct (IH a') as [-> ->]; auto; now apply negb_true_iff.
Qed.

Theorem lit_key_injective_plain d l d' l' :
  no_byte 10 d = true -> no_byte 10 d' = true ->
  lit_key (TLit d l None None) = lit_key (TLit d' l' None None) -> d = d' /\ l = l'.
Proof. simpl. intros Hd Hd' H. eapply app_cut_unique; eauto. Qed.

Theorem lit_key_injective_lang d l g d' l' g' :
  no_byte 10 d = true -> no_byte 10 d' = true -> no_byte 34 g = true -> no_byte 34 g' = true ->
  lit_key (TLit d l (Some g) None) = lit_key (TLit d' l' (Some g') None) -> d = d' /\ g = g' /\ l = l'.
Proof.
  simpl. intros Hd Hd' Hg Hg' H.
  destruct (app_cut_unique _ _ _ _ _ Hd Hd' H) as [-> H1]. split; [reflexivity|].
  unfold quote_go in H1. simpl in H1. injection H1 as H1.
  rewrite <- !app_assoc in H1. simpl in H1.
  destruct (app_cut_unique _ _ _ _ _ Hg Hg' H1) as [-> H2]. split; [reflexivity|]. now injection H2.
Qed.

(* ---------- refinement over histories ---------- *)
Definition same_set (l1 l2 : list quad) : Prop := NoDup l1 /\ NoDup l2 /\ forall q, In q l1 <-> In q l2.

Definition out_equiv (a b : sout) : Prop :=
  match a, b with
  | SUnit, SUnit => True
  | SBool x, SBool y => x = y
  | SQuads l1, SQuads l2 => same_set l1 l2
  | _, _ => False
  end.

Definition R (st : store) (s : qset) : Prop := SInv st /\ same_set (all_quads st) s.

Lemma qmem_In q s : qmem q s = true <-> In q s.
Proof. unfold qmem. apply (existsb_eqb_In quad_eqb quad_eqb_eq). Qed.

Lemma same_set_filter f l1 l2 : same_set l1 l2 -> same_set (filter f l1) (filter f l2).
Proof.
  intros (H1 & H2 & H3). repeat split; try now apply NoDup_filter.
  - intros Hi. apply filter_In in Hi as [Hi Hf]. apply filter_In. split; [now apply H3|assumption].
  - intros Hi. apply filter_In in Hi as [Hi Hf]. apply filter_In. split; [now apply H3|assumption].
Qed.

Lemma step_refines st s o : R st s ->
  R (fst (sstep st o)) (fst (spec_step s o)) /\ out_equiv (snd (sstep st o)) (snd (spec_step s o)).
Proof.
  intros HR. pose proof HR as [HI (N1 & N2 & Hm)]. destruct o as [q|q|q|ms|g|g ms]; simpl.
  - split; [|exact I]. split; [apply (add_quad_spec st q q HI)|].
    repeat split.
    + apply all_quads_NoDup. apply (add_quad_spec st q q HI).
    + destruct (qmem q s) eqn:E; [assumption|].
      apply Permutation_NoDup with (l := q :: s); [apply Permutation_cons_append|]. constructor; [|assumption].
      intros Hi. apply qmem_In in Hi. congruence.
    + intros Hi. apply (add_quad_spec st q q0 HI) in Hi. destruct (qmem q s) eqn:E.
      * destruct Hi as [->|Hi]; [now apply qmem_In|now apply Hm].
      * apply in_or_app. destruct Hi as [->|Hi]; [right; left; reflexivity|left; now apply Hm].
    + intros Hi. apply (add_quad_spec st q q0 HI). destruct (qmem q s) eqn:E.
      * right. now apply Hm.
      * apply in_app_or in Hi as [Hi|[->|[]]]; [right; now apply Hm|now left].
  - split; [|exact I]. split; [apply (del_quad_spec st q q HI)|].
    repeat split.
    + apply all_quads_NoDup. apply (del_quad_spec st q q HI).
    + now apply NoDup_filter.
    + intros Hi. apply (del_quad_spec st q q0 HI) in Hi as [Hne Hi]. apply filter_In. split; [now apply Hm|].
      apply negb_true_iff. destruct (quad_eqb q q0) eqn:E; [|reflexivity]. apply quad_eqb_eq in E. congruence.
    + intros Hi. apply filter_In in Hi as [Hi Hne]. apply (del_quad_spec st q q0 HI). split; [|now apply Hm].
      intros ->. apply negb_true_iff in Hne. assert (quad_eqb q q = true) by now apply quad_eqb_eq. congruence.
  - split; [exact HR|]. simpl.
    destruct (has_quad st q) eqn:E1, (qmem q s) eqn:E2; try reflexivity; exfalso.
    + apply (has_quad_spec st q HI) in E1. apply Hm in E1. apply qmem_In in E1. congruence.
    + apply qmem_In in E2. apply Hm in E2. apply (has_quad_spec st q HI) in E2. congruence.
  - split; [exact HR|]. simpl.
    rewrite iter_quads_filter. apply same_set_filter. exact (conj N1 (conj N2 Hm)).
  - split; [|exact I]. split; [now apply ensure_graph_SInv|].
    repeat split; [apply all_quads_NoDup; now apply ensure_graph_SInv|assumption| |].
    + intros Hi. apply Hm. now apply (ensure_graph_quads g st q HI).
    + intros Hi. apply (ensure_graph_quads g st q HI). now apply Hm.
  - pose proof (ensure_graph_SInv g st HI) as HI1.
    split.
    + split; [assumption|]. repeat split; [now apply all_quads_NoDup|assumption| |].
      * intros Hi. apply Hm. now apply (ensure_graph_quads g st q HI).
      * intros Hi. apply (ensure_graph_quads g st q HI). now apply Hm.
    + simpl. unfold iter_triples. destruct (ensure_graph_found g st) as (bs & Eg). rewrite Eg.
      rewrite graph_iter_t_filter.
      (* the graph's quads are the members whose graph name is g *)
      assert (Hg : same_set (graph_quads g bs) (filter (fun q => gname_eqb (q_g q) g) s)).
      { repeat split.
        - destruct HI1 as [Hnd Hf]. unfold find_graph in Eg. apply (afind_In _ gname_eqb_eq) in Eg.
          pose proof (all_quads_NoDup (ensure_graph g st) (conj Hnd Hf)) as Hall.
          rewrite Forall_forall in Hf. destruct (Hf _ Eg) as [Hbn Hbf]. simpl in *.
          unfold graph_quads. apply NoDup_flat_map.
          + now apply NoDup_keys_NoDup.
          + intros [s0 l] Hb. rewrite Forall_forall in Hbf. specialize (Hbf _ Hb). simpl in Hbf.
            clear -Hbf. induction Hbf as [|[p o] l Hn Hl IH]; simpl; constructor; [|assumption].
            intros Hi. apply in_map_iff in Hi as ([p' o'] & [= -> ->] & Hi). contradiction.
          + intros [s0 l] [s' l'] b Hb Hb' Hi Hi'.
            apply in_map_iff in Hi as ([p o] & <- & Hi). apply in_map_iff in Hi' as ([p' o'] & Heq & Hi').
            injection Heq as Hs _ _. subst s'.
            f_equal. assert (Hfnd : afind term_eqb s0 bs = Some l) by (apply (In_afind _ term_eqb_eq); assumption).
            assert (Hfnd' : afind term_eqb s0 bs = Some l') by (apply (In_afind _ term_eqb_eq); assumption). congruence.
        - now apply NoDup_filter.
        - intros Hi. apply In_graph_quads in Hi as [Hgq (l & Hb & Hpo)]. apply filter_In. split.
          + apply Hm. apply (ensure_graph_quads g st q HI). apply In_all_quads. exists bs, l. rewrite Hgq.
            repeat split; auto. unfold find_graph in Eg. now apply (afind_In _ gname_eqb_eq) in Eg.
          + now apply gname_eqb_eq.
        - intros Hi. apply filter_In in Hi as [Hi Hgq]. apply gname_eqb_eq in Hgq.
          apply Hm in Hi. apply (ensure_graph_quads g st q HI) in Hi. apply In_all_quads in Hi as (bs' & l & Hg' & Hb & Hpo).
          assert (bs' = bs).
          { destruct HI1 as [Hnd _]. rewrite Hgq in Hg'. apply (In_afind _ gname_eqb_eq) in Hg'; [|assumption]. unfold find_graph in Eg. congruence. }
          subst bs'. apply In_graph_quads. split; [assumption|eauto]. }
      apply (same_set_filter (fun q => forallb (fun m => trmatches m (q_s q) (q_p q) (q_o q)) ms)) in Hg.
      destruct Hg as (G1 & G2 & G3). repeat split; [assumption|now apply NoDup_filter| |].
      * intros Hi. apply G3 in Hi. apply filter_In in Hi as [Hi Hf]. apply filter_In in Hi as [Hi Hgq].
        apply filter_In. split; [assumption|]. now rewrite Hgq, Hf.
      * intros Hi. apply filter_In in Hi as [Hi Hf]. apply andb_true_iff in Hf as [Hgq Hf].
        apply G3. apply filter_In. split; [|assumption]. apply filter_In. auto.
Qed.

Theorem run_refines ops : forall st s, R st s ->
  R (fst (srun_from st ops)) (fst (spec_run_from s ops)) /\
  Forall2 out_equiv (snd (srun_from st ops)) (snd (spec_run_from s ops)).
Proof.
  induction ops as [|o ops IH]; intros st s HR; simpl; [split; [assumption|constructor]|].
  destruct (step_refines st s o HR) as [HR' Ho].
  destruct (sstep st o) as [st' r]. destruct (spec_step s o) as [s' r']. simpl in *.
  destruct (IH st' s' HR') as [HR'' Hos].
  destruct (srun_from st' ops) as [st'' rs]. destruct (spec_run_from s' ops) as [s'' rs']. simpl in *.
  split; [assumption|]. constructor; assumption.
Qed.

Lemma R0 : R store0 [].
Proof. split; [apply SInv_store0|]. repeat split; simpl; try constructor; tauto. Qed.

(* RuneBufProofs.v — the runes a decoder sees do not depend on how the reader splits the bytes. *)
From RK Require Import Base BaseFacts Utf8 RuneBuf.

Lemma decode_rune_full p x :
  full_rune p = true ->
  decode_rune (p ++ x) =
  match decode_rune p with Some (r, n, rest) => Some (r, n, rest ++ x) | None => None end.
Proof.
  destruct p as [|b0 r0]; [discriminate|].
  cbn [full_rune decode_rune app].
  destruct (b0 <? 128)%N eqn:E0.
  { assert ((b0 <? 194)%N = true) as -> by (apply N.ltb_lt; apply N.ltb_lt in E0; lia). reflexivity. }
  destruct (b0 <? 194)%N eqn:E1; [reflexivity|].
  destruct (b0 <? 224)%N eqn:E2.
  { destruct r0 as [|b1 r1]; [discriminate|]. intros _. cbn [app]. destruct (cont b1); reflexivity. }
  destruct (b0 <? 240)%N eqn:E3.
  { destruct r0 as [|b1 [|b2 r2]].
    - discriminate.
    - intros H. cbn [app]. apply negb_true_iff in H.
      destruct x as [|x0 x']; [reflexivity|]. rewrite H. reflexivity.
    - intros _. cbn [app]. destruct (in_rng _ _ b1 && cont b2); reflexivity. }
  destruct (b0 <? 245)%N eqn:E4; [|reflexivity].
  destruct r0 as [|b1 [|b2 [|b3 r3]]].
  - discriminate.
  - intros H. cbn [app]. apply negb_true_iff in H.
    destruct x as [|x0 [|x1 x']]; try reflexivity. rewrite H. reflexivity.
  - intros H. cbn [app]. destruct x as [|x0 x']; [reflexivity|].
    apply orb_true_iff in H. destruct H as [H|H]; apply negb_true_iff in H; rewrite H.
    + reflexivity.
    + rewrite andb_false_r. reflexivity.
  - intros _. cbn [app]. destruct (in_rng _ _ b1 && cont b2 && cont b3); reflexivity.
Qed.

Lemma pull_spec : forall chunks buf buf' chunks',
  pull buf chunks = (buf', chunks') ->
  buf' ++ concat chunks' = buf ++ concat chunks /\ (full_rune buf' = true \/ chunks' = []).
Proof.
  induction chunks as [|c cs IH]; cbn [pull]; intros buf buf' chunks' H.
  - inversion H; subst. split; [reflexivity|right; reflexivity].
  - destruct (full_rune buf) eqn:F.
    + inversion H; subst. split; [reflexivity|left; exact F].
    + apply IH in H. destruct H as [H1 H2]. split; [|exact H2].
      rewrite H1. cbn [concat]. rewrite app_assoc. reflexivity.
Qed.

Lemma decode_rune_size bs r n rest : decode_rune bs = Some (r, n, rest) -> length rest < length bs.
Proof.
  destruct bs as [|b0 r0]; [discriminate|]. cbn [decode_rune].
  repeat match goal with
  | |- context [if ?c then _ else _] => destruct c
  | |- context [match ?l with [] => _ | _ :: _ => _ end] => destruct l
  end; intros H; inversion H; subst; cbn [length]; lia.
Qed.

Lemma read_runes_whole : forall fuel buf chunks,
  length (buf ++ concat chunks) < fuel ->
  read_runes fuel buf chunks = utf8_decode_fuel fuel (buf ++ concat chunks).
Proof.
  induction fuel as [|f IH]; intros buf chunks Hf; [lia|].
  cbn [read_runes utf8_decode_fuel].
  destruct (pull buf chunks) as [buf' chunks'] eqn:P.
  apply pull_spec in P. destruct P as [P1 P2]. rewrite <- P1.
  assert (decode_rune (buf' ++ concat chunks') =
          match decode_rune buf' with Some (r, n, rest) => Some (r, n, rest ++ concat chunks') | None => None end) as D.
  { destruct P2 as [P2|P2].
    - apply decode_rune_full; exact P2.
    - subst chunks'. cbn [concat]. rewrite app_nil_r.
      destruct (decode_rune buf') as [[[r n] rest]|]; [rewrite app_nil_r|]; reflexivity. }
  rewrite D.
  destruct (decode_rune buf') as [[[r n] rest]|] eqn:E; [|reflexivity].
  f_equal. apply IH.
  apply decode_rune_size in E. rewrite <- P1 in Hf. rewrite !app_length in *. lia.
Qed.

Lemma utf8_decode_fuel_more : forall f1 f2 bs,
  length bs <= f1 -> length bs <= f2 -> utf8_decode_fuel f1 bs = utf8_decode_fuel f2 bs.
Proof.
  induction f1 as [|f1 IH]; intros f2 bs H1 H2.
  - destruct bs; [|cbn in H1; lia]. destruct f2; reflexivity.
  - destruct f2 as [|f2].
    + destruct bs; [reflexivity|cbn in H2; lia].
    + cbn [utf8_decode_fuel]. destruct (decode_rune bs) as [[[r n] rest]|] eqn:E; [|reflexivity].
      f_equal. apply decode_rune_size in E. apply IH; lia.
Qed.

(* every partition of the byte stream into Read calls yields the runes of the whole byte string *)
Theorem read_all_chunking : forall chunks, read_all chunks = utf8_decode (concat chunks).
Proof.
  intros chunks. unfold read_all, utf8_decode.
  rewrite read_runes_whole by (cbn [app]; lia).
  cbn [app]. apply utf8_decode_fuel_more; lia.
Qed.

Lemma chunk_fuel_concat : forall fuel sizes all bs, concat (chunk_fuel fuel sizes all bs) = bs.
Proof.
  induction fuel as [|f IH]; intros sizes all bs; cbn [chunk_fuel].
  - cbn. apply app_nil_r.
  - destruct bs as [|b bs']; [reflexivity|].
    destruct sizes as [|k ks].
    + destruct all; [cbn; now rewrite app_nil_r|apply IH].
    + cbn [concat]. rewrite IH. apply firstn_skipn.
Qed.

Theorem chunk_concat sizes bs : concat (chunk sizes bs) = bs.
Proof. apply chunk_fuel_concat. Qed.

Corollary read_chunked sizes bs : read_all (chunk sizes bs) = utf8_decode bs.
Proof. rewrite read_all_chunking, chunk_concat. reflexivity. Qed.

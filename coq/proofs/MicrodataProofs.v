(* MicrodataProofs.v — facts of the Microdata model (model/Microdata.v). *)
From RK Require Import Base BaseFacts Iri3986 RdfXml Microdata.

Lemma mvalue_attrs_ext fuel base name attrs attrs' ch :
  (forall k, attr k attrs = attr k attrs') ->
  mvalue fuel base (XE name attrs ch) = mvalue fuel base (XE name attrs' ch).
Proof.
  intros H. unfold mvalue. rewrite !H.
  destruct fuel; reflexivity.
Qed.

Lemma walk_attrs_ext base root idfuel f cur refs name attrs attrs' ch st :
  (forall k, attr k attrs = attr k attrs') ->
  walk base root idfuel (S f) cur refs (XE name attrs ch) st = walk base root idfuel (S f) cur refs (XE name attrs' ch) st.
Proof.
  intros H. cbn [walk]. rewrite !H. rewrite (mvalue_attrs_ext idfuel base name attrs attrs' ch H). reflexivity.
Qed.

(* an element which is neither an item nor a property is transparent *)
Theorem md_plain_element_transparent base root idfuel f cur refs name attrs ch st :
  attr (s2b "itemscope") attrs = None -> attr (s2b "itemprop") attrs = None ->
  walk base root idfuel (S f) cur refs (XE name attrs ch) st =
  fold_left (fun st c => walk base root idfuel f cur refs c st) ch st.
Proof.
  intros Hs Hp. cbn [walk]. rewrite Hs, Hp. destruct cur as [[cs ty]|]; reflexivity.
Qed.

(* Extract.v — extraction of the executable models.  ExtrOcamlBasic only:
   bool/option/list/prod/unit/sumbool map to OCaml's; N, Z, positive, nat stay
   Coq inductives.  No Extract Constant / Extract Inductive of our own. *)
From Coq Require Extraction.
From Coq Require ExtrOcamlBasic.
From RK Require Import Driver.
Extraction Language OCaml.
Extraction "model.ml" Driver.run_line.
